// instr rewrites the non-test Go files of selected packages of a scratch copy
// of gotid/god so that every synchronisation operation becomes a scheduling
// point of the zsim simulator (see /verif/DESIGN.md section 2.3).
package main

import (
	"bytes"
	"flag"
	"fmt"
	"go/ast"
	"go/format"
	"go/token"
	"go/types"
	"os"
	"path/filepath"
	"strconv"
	"strings"

	"golang.org/x/tools/go/ast/astutil"
	"golang.org/x/tools/go/packages"
)

const (
	zsimPath   = "github.com/gotid/god/internal/zsim"
	syncPath   = zsimPath + "/simsync"
	atomicPath = zsimPath + "/simatomic"
)

var verbose = flag.Bool("v", false, "verbose")

func main() {
	dir := flag.String("dir", ".", "module root of the scratch copy")
	pkgs := flag.String("pkgs", "", "comma separated package directories (relative to the module root)")
	seamList := flag.String("seams", "", "comma separated dir:Func or dir:Type.Method whose body gets a replaceable prologue (ZsimSeam_*)")
	preemptList := flag.String("preempt", "", "comma separated package directories whose loops get a scheduling point at the end of every iteration (models pre-emption inside code without synchronisation)")
	argList := flag.String("argseams", "", "comma separated dir:Func or dir:Type.Method whose arguments can be substituted (ZsimArgs_*)")
	seamOnlyList := flag.String("seamonly", "", "comma separated package directories that get their seams and nothing else (no rewriting of sync, go, channels)")
	flag.Parse()
	seams, argSeams := parseSeams(*seamList), parseSeams(*argList)
	seamOnly := map[string]bool{}
	for _, d := range strings.Split(*seamOnlyList, ",") {
		if d = strings.TrimSpace(d); d != "" {
			seamOnly[d] = true
			*pkgs += "," + d
		}
	}
	preempt := map[string]bool{}
	for _, d := range strings.Split(*preemptList, ",") {
		if d = strings.TrimSpace(d); d != "" {
			preempt[d] = true
		}
	}
	var pats []string
	for _, p := range strings.Split(*pkgs, ",") {
		p = strings.TrimSpace(p)
		if p == "" {
			continue
		}
		if _, err := os.Stat(filepath.Join(*dir, p)); err != nil {
			fmt.Fprintf(os.Stderr, "instr: skipping missing package dir %s\n", p)
			continue
		}
		pats = append(pats, "./"+p)
	}
	fset := token.NewFileSet()
	cfg := &packages.Config{
		Mode: packages.NeedName | packages.NeedFiles | packages.NeedCompiledGoFiles | packages.NeedSyntax |
			packages.NeedTypes | packages.NeedTypesInfo | packages.NeedImports,
		Dir:  *dir,
		Fset: fset,
		Env:  os.Environ(),
	}
	loaded, err := packages.Load(cfg, pats...)
	if err != nil {
		fmt.Fprintln(os.Stderr, "instr: load:", err)
		os.Exit(2)
	}
	bad := false
	for _, p := range loaded {
		for _, e := range p.Errors {
			fmt.Fprintln(os.Stderr, "instr: package error:", e)
			bad = true
		}
	}
	if bad {
		os.Exit(2)
	}
	nfiles, nsites := 0, 0
	for _, p := range loaded {
		atomics := atomicTargets(p)
		for i, f := range p.Syntax {
			name := p.CompiledGoFiles[i]
			if strings.HasSuffix(name, "_test.go") {
				continue
			}
			in := &instr{fset: fset, info: p.TypesInfo, file: f, fname: filepath.Base(name), pkg: p.Types, atomics: atomics}
			rel, _ := filepath.Rel(*dir, filepath.Dir(name))
			in.seams, in.argSeams = seams[rel], argSeams[rel]
			in.preempt = preempt[rel]
			in.seamOnly = seamOnly[rel]
			if err := in.run(); err != nil {
				fmt.Fprintf(os.Stderr, "instr: %s: %v\n", name, err)
				os.Exit(2)
			}
			if !in.changed {
				continue
			}
			var buf bytes.Buffer
			if err := format.Node(&buf, fset, f); err != nil {
				fmt.Fprintf(os.Stderr, "instr: print %s: %v\n", name, err)
				os.Exit(2)
			}
			if err := os.WriteFile(name, buf.Bytes(), 0o644); err != nil {
				fmt.Fprintln(os.Stderr, "instr:", err)
				os.Exit(2)
			}
			nfiles++
			nsites += in.sites
			if *verbose {
				fmt.Printf("instr: %s: %d sites\n", name, in.sites)
			}
		}
	}
	fmt.Printf("instr: rewrote %d files, %d sites, %d packages\n", nfiles, nsites, len(loaded))
}

type instr struct {
	fset     *token.FileSet
	info     *types.Info
	pkg      *types.Package
	file     *ast.File
	fname    string
	changed  bool
	seamOnly bool
	useZsim  bool
	sites    int
	ctr      int
	keep     map[string]string // local package name -> member to reference so the import stays used
	seams    map[string]bool   // Func or Type.Method -> give it a replaceable prologue
	argSeams map[string]bool
	preempt  bool                  // scheduling point at the end of every loop iteration
	atomics  map[types.Object]bool // variables and fields of this package that are passed to sync/atomic somewhere
}

// atomicTargets collects the variables and struct fields whose address is handed to a sync/atomic function
// anywhere in the package. A plain `x++` / `x += n` on such a variable is a read-modify-write in three steps that
// other goroutines can cut into; it is rewritten with a scheduling point between the read and the write.
func atomicTargets(p *packages.Package) map[types.Object]bool {
	out := map[types.Object]bool{}
	for _, f := range p.Syntax {
		ast.Inspect(f, func(n ast.Node) bool {
			call, ok := n.(*ast.CallExpr)
			if !ok || len(call.Args) == 0 {
				return true
			}
			sel, ok := call.Fun.(*ast.SelectorExpr)
			if !ok {
				return true
			}
			pk, ok := sel.X.(*ast.Ident)
			if !ok {
				return true
			}
			pn, ok := p.TypesInfo.Uses[pk].(*types.PkgName)
			if !ok || pn.Imported().Path() != "sync/atomic" {
				return true
			}
			u, ok := call.Args[0].(*ast.UnaryExpr)
			if !ok || u.Op != token.AND {
				return true
			}
			switch x := u.X.(type) {
			case *ast.SelectorExpr:
				if o := p.TypesInfo.ObjectOf(x.Sel); o != nil {
					out[o] = true
				}
			case *ast.Ident:
				if o := p.TypesInfo.ObjectOf(x); o != nil {
					out[o] = true
				}
			}
			return true
		})
	}
	return out
}

// rmwTarget reports whether e names a variable or field that is accessed atomically elsewhere.
func (in *instr) rmwTarget(e ast.Expr) bool {
	switch x := e.(type) {
	case *ast.SelectorExpr:
		return in.atomics[in.info.ObjectOf(x.Sel)]
	case *ast.Ident:
		return in.atomics[in.info.ObjectOf(x)]
	}
	return false
}

// loopYield appends a scheduling point to a loop body (packages listed with -preempt).
func (in *instr) loopYield(loop ast.Stmt, body *ast.BlockStmt) {
	if !in.preempt || body == nil {
		return
	}
	if n := len(body.List); n > 0 {
		switch body.List[n-1].(type) {
		case *ast.ReturnStmt, *ast.BranchStmt:
			return
		}
	}
	body.List = append(body.List, in.zstmt("Yield", in.site(loop)))
}

func parseSeams(s string) map[string]map[string]bool {
	out := map[string]map[string]bool{}
	for _, e := range strings.Split(s, ",") {
		e = strings.TrimSpace(e)
		i := strings.LastIndex(e, ":")
		if i < 0 {
			continue
		}
		if out[e[:i]] == nil {
			out[e[:i]] = map[string]bool{}
		}
		out[e[:i]][e[i+1:]] = true
	}
	return out
}

// seam gives a function a prologue through which a simulation hook (a package-level func variable, nil by
// default, declared here) can replace the call (kind "Seam") or substitute its arguments (kind "Args").
func (in *instr) seam(d *ast.FuncDecl, kind string) error {
	name := d.Name.Name
	var fields []*ast.Field
	if d.Recv != nil && len(d.Recv.List) == 1 {
		t := d.Recv.List[0].Type
		if st, ok := t.(*ast.StarExpr); ok {
			t = st.X
		}
		tn, ok := t.(*ast.Ident)
		if !ok {
			return fmt.Errorf("seam %s: unsupported receiver", name)
		}
		name = tn.Name + "_" + name
		fields = append(fields, d.Recv.List[0])
	}
	fields = append(fields, d.Type.Params.List...)
	var args, types []ast.Expr
	for _, f := range fields {
		if len(f.Names) == 0 {
			return fmt.Errorf("seam %s: unnamed parameter", name)
		}
		for _, n := range f.Names {
			if n.Name == "_" {
				return fmt.Errorf("seam %s: blank parameter", name)
			}
			args = append(args, id(n.Name))
			types = append(types, f.Type)
		}
	}
	v := id("Zsim" + kind + "_" + name)
	ft := &ast.FuncType{Params: &ast.FieldList{}}
	for _, t := range types {
		ft.Params.List = append(ft.Params.List, &ast.Field{Type: t})
	}
	call := &ast.CallExpr{Fun: v, Args: args}
	var body []ast.Stmt
	switch kind {
	case "Seam":
		ft.Results = d.Type.Results
		if d.Type.Results != nil && len(d.Type.Results.List) > 0 {
			body = []ast.Stmt{&ast.ReturnStmt{Results: []ast.Expr{call}}}
		} else {
			body = []ast.Stmt{&ast.ExprStmt{X: call}, &ast.ReturnStmt{}}
		}
	default:
		ft.Results = &ast.FieldList{}
		for _, t := range types {
			ft.Results.List = append(ft.Results.List, &ast.Field{Type: t})
		}
		body = []ast.Stmt{assign(args, call)}
	}
	pro := &ast.IfStmt{Cond: &ast.BinaryExpr{X: v, Op: token.NEQ, Y: id("nil")}, Body: &ast.BlockStmt{List: body}}
	d.Body.List = append([]ast.Stmt{pro}, d.Body.List...)
	in.file.Decls = append(in.file.Decls, &ast.GenDecl{Tok: token.VAR, Specs: []ast.Spec{
		&ast.ValueSpec{Names: []*ast.Ident{id(v.Name)}, Type: ft},
	}})
	in.changed = true
	return nil
}

func seamKey(d *ast.FuncDecl) string {
	if d.Recv != nil && len(d.Recv.List) == 1 {
		t := d.Recv.List[0].Type
		if st, ok := t.(*ast.StarExpr); ok {
			t = st.X
		}
		if tn, ok := t.(*ast.Ident); ok {
			return tn.Name + "." + d.Name.Name
		}
	}
	return d.Name.Name
}

func (in *instr) site(n ast.Node) *ast.BasicLit {
	in.sites++
	pos := in.fset.Position(n.Pos())
	return &ast.BasicLit{Kind: token.STRING, Value: strconv.Quote(in.fname + ":" + strconv.Itoa(pos.Line))}
}

func (in *instr) next() string { in.ctr++; return strconv.Itoa(in.ctr) }

func id(n string) *ast.Ident { return ast.NewIdent(n) }

func (in *instr) z(name string) ast.Expr {
	in.useZsim = true
	in.changed = true
	return &ast.SelectorExpr{X: id("zsim"), Sel: id(name)}
}

func (in *instr) zcall(name string, args ...ast.Expr) *ast.CallExpr {
	return &ast.CallExpr{Fun: in.z(name), Args: args}
}

func (in *instr) zstmt(name string, args ...ast.Expr) ast.Stmt {
	return &ast.ExprStmt{X: in.zcall(name, args...)}
}

func define(lhs []ast.Expr, rhs ...ast.Expr) ast.Stmt {
	return &ast.AssignStmt{Lhs: lhs, Tok: token.DEFINE, Rhs: rhs}
}

func assign(lhs []ast.Expr, rhs ...ast.Expr) ast.Stmt {
	return &ast.AssignStmt{Lhs: lhs, Tok: token.ASSIGN, Rhs: rhs}
}

func blank(n int) []ast.Expr {
	out := make([]ast.Expr, n)
	for i := range out {
		out[i] = id("_")
	}
	return out
}

func (in *instr) run() error {
	for _, cg := range in.file.Comments {
		for _, c := range cg.List {
			if cg.Pos() > in.file.Package && strings.HasPrefix(c.Text, "//go:") && !strings.HasPrefix(c.Text, "//go:generate") {
				return fmt.Errorf("directive %q is not supported by the instrumenter", c.Text)
			}
		}
	}
	in.keep = map[string]string{}
	// imports
	for _, is := range in.file.Imports {
		if in.seamOnly {
			break
		}
		p, _ := strconv.Unquote(is.Path.Value)
		switch p {
		case "sync":
			if is.Name == nil {
				is.Name = id("sync")
			}
			is.Path.Value = strconv.Quote(syncPath)
			in.changed = true
		case "sync/atomic":
			if is.Name == nil {
				is.Name = id("atomic")
			}
			is.Path.Value = strconv.Quote(atomicPath)
			in.changed = true
		}
	}
	for _, d := range in.file.Decls {
		if in.seamOnly {
			break
		}
		switch d := d.(type) {
		case *ast.FuncDecl:
			if d.Body != nil {
				in.block(d.Body)
			}
		case *ast.GenDecl:
			in.fix(d)
		}
	}
	for _, d := range append([]ast.Decl(nil), in.file.Decls...) {
		if fd, ok := d.(*ast.FuncDecl); ok && fd.Body != nil {
			k := seamKey(fd)
			if in.seams[k] {
				if err := in.seam(fd, "Seam"); err != nil {
					return err
				}
			}
			if in.argSeams[k] {
				if err := in.seam(fd, "Args"); err != nil {
					return err
				}
			}
		}
	}
	if !in.changed {
		return nil
	}
	if in.useZsim {
		astutil.AddNamedImport(in.fset, in.file, "zsim", zsimPath)
	}
	for pkgName, member := range in.keep {
		in.file.Decls = append(in.file.Decls, &ast.GenDecl{Tok: token.VAR, Specs: []ast.Spec{
			&ast.ValueSpec{Names: []*ast.Ident{id("_")}, Values: []ast.Expr{&ast.SelectorExpr{X: id(pkgName), Sel: id(member)}}},
		}})
	}
	// drop comments after the package clause: inserted nodes have no
	// positions and would make the printer misplace them
	var keepc []*ast.CommentGroup
	for _, cg := range in.file.Comments {
		if cg.End() < in.file.Package {
			keepc = append(keepc, cg)
		}
	}
	in.file.Comments = keepc
	ast.Inspect(in.file, func(n ast.Node) bool {
		switch n := n.(type) {
		case *ast.FuncDecl:
			n.Doc = nil
		case *ast.GenDecl:
			n.Doc = nil
		case *ast.TypeSpec:
			n.Doc, n.Comment = nil, nil
		case *ast.ValueSpec:
			n.Doc, n.Comment = nil, nil
		case *ast.Field:
			n.Doc, n.Comment = nil, nil
		case *ast.ImportSpec:
			n.Doc, n.Comment = nil, nil
		}
		return true
	})
	return nil
}

// pkgOf reports the import path if e is an identifier naming an imported package.
func (in *instr) pkgOf(e ast.Expr) (string, bool) {
	idn, ok := e.(*ast.Ident)
	if !ok {
		return "", false
	}
	if pn, ok := in.info.Uses[idn].(*types.PkgName); ok {
		return pn.Imported().Path(), true
	}
	return "", false
}

func isRecv(e ast.Expr) (*ast.UnaryExpr, bool) {
	for {
		if p, ok := e.(*ast.ParenExpr); ok {
			e = p.X
			continue
		}
		break
	}
	u, ok := e.(*ast.UnaryExpr)
	if ok && u.Op == token.ARROW {
		return u, true
	}
	return nil, false
}

// fix applies the expression-level rewrites below n (function literal bodies
// are handled through the statement rewriter).
func (in *instr) fix(n ast.Node) {
	astutil.Apply(n, func(c *astutil.Cursor) bool {
		switch x := c.Node().(type) {
		case *ast.FuncLit:
			in.block(x.Body)
			return false
		case *ast.AssignStmt:
			if len(x.Lhs) == 2 && len(x.Rhs) == 1 {
				if u, ok := isRecv(x.Rhs[0]); ok {
					in.fix(u.X)
					x.Rhs[0] = in.zcall("Recv2", u.X)
					in.sites++
					for _, l := range x.Lhs {
						in.fix(l)
					}
					return false
				}
			}
		case *ast.ValueSpec:
			if len(x.Names) == 2 && len(x.Values) == 1 {
				if u, ok := isRecv(x.Values[0]); ok {
					in.fix(u.X)
					x.Values[0] = in.zcall("Recv2", u.X)
					in.sites++
					return false
				}
			}
		}
		return true
	}, func(c *astutil.Cursor) bool {
		switch x := c.Node().(type) {
		case *ast.UnaryExpr:
			if x.Op == token.ARROW {
				in.sites++
				c.Replace(in.zcall("Recv", x.X))
			}
		case *ast.CallExpr:
			if f, ok := x.Fun.(*ast.Ident); ok && f.Name == "close" {
				if _, isb := in.info.Uses[f].(*types.Builtin); isb {
					in.sites++
					x.Fun = in.z("Close")
				}
			}
		case *ast.SelectorExpr:
			if p, ok := in.pkgOf(x.X); ok {
				repl := ""
				switch {
				case p == "time" && x.Sel.Name == "Sleep":
					repl = "Sleep"
				case p == "time" && x.Sel.Name == "AfterFunc":
					repl = "AfterFunc"
				case p == "runtime" && x.Sel.Name == "Gosched":
					repl = "Gosched"
				case p == "math/rand" && x.Sel.Name == "NewSource":
					repl = "NewSource"
				}
				if repl != "" {
					in.sites++
					in.keep[x.X.(*ast.Ident).Name] = x.Sel.Name
					c.Replace(in.z(repl))
				}
			}
		}
		return true
	})
}

func (in *instr) fixExpr(e ast.Expr) ast.Expr {
	if e == nil {
		return nil
	}
	h := &ast.ParenExpr{X: e}
	in.fix(h)
	return h.X
}

func (in *instr) block(b *ast.BlockStmt) {
	if b == nil {
		return
	}
	b.List = in.list(b.List)
}

func (in *instr) list(l []ast.Stmt) []ast.Stmt {
	for i, s := range l {
		l[i] = in.stmt(s, nil)
	}
	return l
}

// simple handles init/post statements, which must stay simple statements.
func (in *instr) simple(s ast.Stmt) ast.Stmt {
	if s != nil {
		in.fix(s)
	}
	return s
}

func (in *instr) stmt(s ast.Stmt, label *ast.Ident) ast.Stmt {
	switch s := s.(type) {
	case nil:
		return nil
	case *ast.BlockStmt:
		in.block(s)
		return s
	case *ast.LabeledStmt:
		switch s.Stmt.(type) {
		case *ast.SelectStmt:
			return in.stmt(s.Stmt, s.Label)
		case *ast.RangeStmt:
			if in.isChanRange(s.Stmt.(*ast.RangeStmt)) || in.isSortableMapRange(s.Stmt.(*ast.RangeStmt)) {
				return in.stmt(s.Stmt, s.Label)
			}
		}
		s.Stmt = in.stmt(s.Stmt, nil)
		return s
	case *ast.IfStmt:
		s.Init = in.simple(s.Init)
		s.Cond = in.fixExpr(s.Cond)
		in.block(s.Body)
		s.Else = in.stmt(s.Else, nil)
		return s
	case *ast.ForStmt:
		s.Init = in.simple(s.Init)
		s.Cond = in.fixExpr(s.Cond)
		s.Post = in.simple(s.Post)
		in.block(s.Body)
		in.loopYield(s, s.Body)
		return s
	case *ast.RangeStmt:
		if in.isChanRange(s) {
			return in.rangeChan(s, label)
		}
		if in.isSortableMapRange(s) {
			return in.rangeMap(s, label)
		}
		if tv, ok := in.info.Types[s.X]; ok && tv.Type != nil {
			if m, isMap := tv.Type.Underlying().(*types.Map); isMap && *verbose {
				pos := in.fset.Position(s.Pos())
				fmt.Printf("instr: note: map range left in map order at %s:%d (key type %s)\n", in.fname, pos.Line, m.Key().String())
			}
		}
		s.X = in.fixExpr(s.X)
		in.block(s.Body)
		in.loopYield(s, s.Body)
		return s
	case *ast.SwitchStmt:
		s.Init = in.simple(s.Init)
		s.Tag = in.fixExpr(s.Tag)
		for _, c := range s.Body.List {
			cc := c.(*ast.CaseClause)
			for i := range cc.List {
				cc.List[i] = in.fixExpr(cc.List[i])
			}
			cc.Body = in.list(cc.Body)
		}
		return s
	case *ast.TypeSwitchStmt:
		s.Init = in.simple(s.Init)
		s.Assign = in.simple(s.Assign)
		for _, c := range s.Body.List {
			cc := c.(*ast.CaseClause)
			cc.Body = in.list(cc.Body)
		}
		return s
	case *ast.SelectStmt:
		return in.selectStmt(s, label)
	case *ast.SendStmt:
		in.fix(s)
		st := in.site(s)
		return &ast.BlockStmt{List: []ast.Stmt{in.zstmt("Yield", st), s, in.zstmt("Woke", st)}}
	case *ast.GoStmt:
		return in.goStmt(s)
	case *ast.IncDecStmt:
		if in.rmwTarget(s.X) {
			n := in.next()
			tmp := id("_zv" + n)
			op := token.ADD
			if s.Tok == token.DEC {
				op = token.SUB
			}
			return &ast.BlockStmt{List: []ast.Stmt{
				define([]ast.Expr{tmp}, s.X),
				in.zstmt("Yield", in.site(s)),
				assign([]ast.Expr{s.X}, &ast.BinaryExpr{X: tmp, Op: op, Y: intLit(1)}),
			}}
		}
		in.fix(s)
		return s
	default:
		if as, ok := s.(*ast.AssignStmt); ok && len(as.Lhs) == 1 && len(as.Rhs) == 1 && (as.Tok == token.ADD_ASSIGN || as.Tok == token.SUB_ASSIGN) && in.rmwTarget(as.Lhs[0]) {
			in.fix(as)
			n := in.next()
			tmp := id("_zv" + n)
			op := token.ADD
			if as.Tok == token.SUB_ASSIGN {
				op = token.SUB
			}
			return &ast.BlockStmt{List: []ast.Stmt{
				define([]ast.Expr{tmp}, as.Lhs[0]),
				in.zstmt("Yield", in.site(s)),
				assign([]ast.Expr{as.Lhs[0]}, &ast.BinaryExpr{X: tmp, Op: op, Y: &ast.ParenExpr{X: as.Rhs[0]}}),
			}}
		}
		in.fix(s)
		return s
	}
}

func (in *instr) isChanRange(s *ast.RangeStmt) bool {
	tv, ok := in.info.Types[s.X]
	if !ok || tv.Type == nil {
		return false
	}
	_, isChan := tv.Type.Underlying().(*types.Chan)
	return isChan
}

// isSortableMapRange: `for k, v := range m` over a map whose keys are strings or integers. Go leaves the
// iteration order unspecified; during a simulated run the keys are visited in sorted order so that one seed
// is one execution (entries deleted during the loop are skipped, as Go does).
func (in *instr) isSortableMapRange(s *ast.RangeStmt) bool {
	return in.mapRangeKind(s) != 0
}

// plain: a type whose printed form depends on nothing but its value (no pointers, maps, interfaces ...)
func plain(t types.Type, depth int) bool {
	if depth > 4 {
		return false
	}
	switch u := t.Underlying().(type) {
	case *types.Basic:
		return u.Kind() != types.UnsafePointer && u.Kind() != types.Uintptr
	case *types.Slice:
		return plain(u.Elem(), depth+1)
	case *types.Array:
		return plain(u.Elem(), depth+1)
	case *types.Struct:
		for i := 0; i < u.NumFields(); i++ {
			if !plain(u.Field(i).Type(), depth+1) {
				return false
			}
		}
		return true
	}
	return false
}

// mapRangeKind: 0 leave alone, 1 iterate in key order (string / integer keys), 2 iterate in the order of the
// printed values (keys that cannot be ordered - pointers, interfaces - but plain values)
func (in *instr) mapRangeKind(s *ast.RangeStmt) int {
	if s.Tok != token.DEFINE && (s.Key != nil || s.Value != nil) {
		return 0
	}
	tv, ok := in.info.Types[s.X]
	if !ok || tv.Type == nil {
		return 0
	}
	m, isMap := tv.Type.Underlying().(*types.Map)
	if !isMap {
		return 0
	}
	if b, isBasic := m.Key().Underlying().(*types.Basic); isBasic {
		if b.Info()&(types.IsString|types.IsInteger) != 0 {
			return 1
		}
		return 0
	}
	// (only for map[any]V: the module's language version does not let an interface type satisfy `comparable`)
	if it, isIface := m.Key().Underlying().(*types.Interface); isIface && it.Empty() && plain(m.Elem(), 0) {
		return 2
	}
	return 0
}

func (in *instr) rangeMap(s *ast.RangeStmt, label *ast.Ident) ast.Stmt {
	keysFn := map[int]string{1: "SortedKeys", 2: "KeysByValue"}[in.mapRangeKind(s)]
	n := in.next()
	mv := id("_zm" + n)
	kv := id("_zk" + n)
	x := in.fixExpr(s.X)
	in.block(s.Body)
	in.sites++
	var body []ast.Stmt
	valName := ast.Expr(id("_"))
	if vi, ok := s.Value.(*ast.Ident); ok && vi.Name != "_" {
		valName = vi
	}
	okv := id("_zo" + n)
	body = append(body, define([]ast.Expr{valName, okv}, &ast.IndexExpr{X: mv, Index: kv}))
	body = append(body, &ast.IfStmt{Cond: &ast.UnaryExpr{Op: token.NOT, X: okv}, Body: &ast.BlockStmt{List: []ast.Stmt{&ast.BranchStmt{Tok: token.CONTINUE}}}})
	if vi, ok := valName.(*ast.Ident); ok && vi.Name != "_" {
		body = append(body, assign(blank(1), id(vi.Name)))
	}
	if ki, ok := s.Key.(*ast.Ident); ok && ki.Name != "_" {
		body = append(body, define([]ast.Expr{ki}, kv), assign(blank(1), id(ki.Name)))
	}
	body = append(body, s.Body.List...)
	var loop ast.Stmt = &ast.RangeStmt{Key: id("_"), Value: kv, Tok: token.DEFINE, X: in.zcall(keysFn, mv), Body: &ast.BlockStmt{List: body}}
	if label != nil {
		loop = &ast.LabeledStmt{Label: label, Stmt: loop}
	}
	return &ast.BlockStmt{List: []ast.Stmt{define([]ast.Expr{mv}, x), loop}}
}

func (in *instr) rangeChan(s *ast.RangeStmt, label *ast.Ident) ast.Stmt {
	n := in.next()
	ch := id("_zc" + n)
	ok := id("_zk" + n)
	x := in.fixExpr(s.X)
	in.block(s.Body)
	in.sites++
	var pre []ast.Stmt
	pre = append(pre, define([]ast.Expr{ch}, x))
	var lhs ast.Expr = id("_")
	switch {
	case s.Key == nil:
		pre = append(pre, define([]ast.Expr{id("_"), ok}, in.zcall("ZeroOf", ch)))
	case s.Tok == token.DEFINE:
		lhs = s.Key
		pre = append(pre, define([]ast.Expr{s.Key, ok}, in.zcall("ZeroOf", ch)))
		pre = append(pre, assign(blank(1), s.Key))
	default:
		lhs = s.Key
		pre = append(pre, define([]ast.Expr{id("_"), ok}, in.zcall("ZeroOf", ch)))
	}
	body := []ast.Stmt{
		assign([]ast.Expr{lhs, ok}, in.zcall("Recv2", ch)),
		&ast.IfStmt{Cond: &ast.UnaryExpr{Op: token.NOT, X: ok}, Body: &ast.BlockStmt{List: []ast.Stmt{&ast.BranchStmt{Tok: token.BREAK}}}},
	}
	body = append(body, s.Body.List...)
	var loop ast.Stmt = &ast.ForStmt{Body: &ast.BlockStmt{List: body}}
	if label != nil {
		loop = &ast.LabeledStmt{Label: label, Stmt: loop}
	}
	return &ast.BlockStmt{List: append(pre, loop)}
}

func (in *instr) isConstOrNil(e ast.Expr) bool {
	tv, ok := in.info.Types[e]
	if !ok {
		return false
	}
	return tv.Value != nil || tv.IsNil()
}

func (in *instr) goStmt(s *ast.GoStmt) ast.Stmt {
	st := in.site(s)
	call := s.Call
	n := in.next()
	task := id("_zt" + n)
	pre := []ast.Stmt{define([]ast.Expr{task}, in.zcall("Spawn", st))}
	// the function value and the arguments are evaluated now, as the go
	// statement does; the call itself happens in the new goroutine
	switch f := call.Fun.(type) {
	case *ast.FuncLit:
		in.block(f.Body)
	default:
		inline := false
		switch ff := f.(type) {
		case *ast.Ident:
			if _, isFunc := in.info.Uses[ff].(*types.Func); isFunc {
				inline = true
			}
			if _, isb := in.info.Uses[ff].(*types.Builtin); isb {
				inline = true
			}
		case *ast.SelectorExpr:
			if _, isPkg := in.pkgOf(ff.X); isPkg {
				inline = true
			}
		}
		call.Fun = in.fixExpr(call.Fun)
		if !inline {
			fn := id("_zf" + n)
			pre = append(pre, define([]ast.Expr{fn}, call.Fun))
			call.Fun = fn
		}
	}
	for i, a := range call.Args {
		if _, isLit := a.(*ast.FuncLit); isLit {
			call.Args[i] = in.fixExpr(a)
			continue
		}
		if in.isConstOrNil(a) {
			continue
		}
		if tv, ok := in.info.Types[a]; ok {
			if _, tuple := tv.Type.(*types.Tuple); tuple {
				call.Args[i] = in.fixExpr(a)
				continue
			}
		}
		tmp := id("_za" + n + "_" + strconv.Itoa(i))
		pre = append(pre, define([]ast.Expr{tmp}, in.fixExpr(a)))
		call.Args[i] = tmp
	}
	body := &ast.BlockStmt{List: []ast.Stmt{
		&ast.ExprStmt{X: &ast.CallExpr{Fun: &ast.SelectorExpr{X: task, Sel: id("Enter")}}},
		&ast.DeferStmt{Call: &ast.CallExpr{Fun: &ast.SelectorExpr{X: task, Sel: id("Exit")}}},
		&ast.ExprStmt{X: call},
	}}
	g := &ast.GoStmt{Call: &ast.CallExpr{Fun: &ast.FuncLit{Type: &ast.FuncType{Params: &ast.FieldList{}}, Body: body}}}
	return &ast.BlockStmt{List: append(pre, g)}
}

func intLit(i int) ast.Expr { return &ast.BasicLit{Kind: token.INT, Value: strconv.Itoa(i)} }

func (in *instr) selectStmt(s *ast.SelectStmt, label *ast.Ident) ast.Stmt {
	if len(s.Body.List) == 0 {
		return s // select {} blocks for ever
	}
	st := in.site(s)
	n := in.next()
	idx := id("_zi" + n)
	type sel struct {
		cc       *ast.CommClause
		ch       *ast.Ident
		val      ast.Expr // send value
		rv, rk   *ast.Ident
		lhs      []ast.Expr
		tok      token.Token
		isSend   bool
		isDeflt  bool
		hasAssig bool
	}
	var cases []*sel
	var pre []ast.Stmt
	ncomm := 0
	for i, c := range s.Body.List {
		cc := c.(*ast.CommClause)
		e := &sel{cc: cc}
		cases = append(cases, e)
		sfx := n + "_" + strconv.Itoa(i)
		switch comm := cc.Comm.(type) {
		case nil:
			e.isDeflt = true
			continue
		case *ast.SendStmt:
			e.isSend = true
			e.ch = id("_zc" + sfx)
			pre = append(pre, define([]ast.Expr{e.ch}, in.fixExpr(comm.Chan)))
			if in.isConstOrNil(comm.Value) {
				e.val = comm.Value
			} else {
				v := id("_zv" + sfx)
				pre = append(pre, define([]ast.Expr{v}, in.fixExpr(comm.Value)))
				e.val = v
			}
		case *ast.ExprStmt:
			u, ok := isRecv(comm.X)
			if !ok {
				panic("select case is not a receive")
			}
			e.ch = id("_zc" + sfx)
			pre = append(pre, define([]ast.Expr{e.ch}, in.fixExpr(u.X)))
		case *ast.AssignStmt:
			u, ok := isRecv(comm.Rhs[0])
			if !ok {
				panic("select case is not a receive")
			}
			e.ch = id("_zc" + sfx)
			pre = append(pre, define([]ast.Expr{e.ch}, in.fixExpr(u.X)))
			e.hasAssig = true
			e.lhs = comm.Lhs
			e.tok = comm.Tok
			e.rv, e.rk = id("_zr"+sfx), id("_zk"+sfx)
			pre = append(pre, define([]ast.Expr{e.rv, e.rk}, in.zcall("ZeroOf", e.ch)))
			pre = append(pre, assign(blank(2), e.rv, e.rk))
		}
		ncomm++
	}
	comm := func(e *sel, i int) *ast.CommClause {
		set := assign([]ast.Expr{idx}, intLit(i))
		switch {
		case e.isDeflt:
			return &ast.CommClause{Body: []ast.Stmt{set}}
		case e.isSend:
			return &ast.CommClause{Comm: &ast.SendStmt{Chan: e.ch, Value: e.val}, Body: []ast.Stmt{set}}
		case e.hasAssig:
			return &ast.CommClause{Comm: assign([]ast.Expr{e.rv, e.rk}, &ast.UnaryExpr{Op: token.ARROW, X: e.ch}), Body: []ast.Stmt{set}}
		default:
			return &ast.CommClause{Comm: &ast.ExprStmt{X: &ast.UnaryExpr{Op: token.ARROW, X: e.ch}}, Body: []ast.Stmt{set}}
		}
	}
	out := append([]ast.Stmt{}, pre...)
	out = append(out, define([]ast.Expr{idx}, &ast.UnaryExpr{Op: token.SUB, X: intLit(1)}))
	// probe pass
	probeSwitch := &ast.SwitchStmt{Tag: id("_zp" + n), Body: &ast.BlockStmt{}}
	for i, e := range cases {
		if e.isDeflt {
			continue
		}
		one := &ast.SelectStmt{Body: &ast.BlockStmt{List: []ast.Stmt{comm(e, i), &ast.CommClause{}}}}
		probeSwitch.Body.List = append(probeSwitch.Body.List, &ast.CaseClause{List: []ast.Expr{intLit(i)}, Body: []ast.Stmt{one}})
	}
	// map probe positions (0..ncomm-1) to clause indices
	var commIdx []ast.Expr
	for i, e := range cases {
		if !e.isDeflt {
			commIdx = append(commIdx, intLit(i))
		}
	}
	order := id("_zo" + n)
	probeLoop := &ast.RangeStmt{Key: id("_"), Value: id("_zq" + n), Tok: token.DEFINE, X: order, Body: &ast.BlockStmt{List: []ast.Stmt{
		define([]ast.Expr{id("_zp" + n)}, &ast.IndexExpr{
			X:     &ast.CompositeLit{Type: &ast.ArrayType{Len: &ast.Ellipsis{}, Elt: id("int")}, Elts: commIdx},
			Index: id("_zq" + n)}),
		probeSwitch,
		&ast.IfStmt{Cond: &ast.BinaryExpr{X: idx, Op: token.GEQ, Y: intLit(0)}, Body: &ast.BlockStmt{List: []ast.Stmt{&ast.BranchStmt{Tok: token.BREAK}}}},
	}}}
	out = append(out, &ast.IfStmt{
		Init: define([]ast.Expr{order}, in.zcall("SelBegin", st, intLit(ncomm))),
		Cond: &ast.BinaryExpr{X: order, Op: token.NEQ, Y: id("nil")},
		Body: &ast.BlockStmt{List: []ast.Stmt{probeLoop}},
	})
	// blocking fallback: the original select on the evaluated operands
	orig := &ast.SelectStmt{Body: &ast.BlockStmt{}}
	hasDefault := false
	for i, e := range cases {
		orig.Body.List = append(orig.Body.List, comm(e, i))
		if e.isDeflt {
			hasDefault = true
		}
	}
	fb := []ast.Stmt{}
	if !hasDefault {
		fb = append(fb, in.zstmt("SelBlock", st))
	}
	fb = append(fb, orig)
	if !hasDefault {
		fb = append(fb, in.zstmt("Woke", st))
	}
	out = append(out, &ast.IfStmt{Cond: &ast.BinaryExpr{X: idx, Op: token.LSS, Y: intLit(0)}, Body: &ast.BlockStmt{List: fb}})
	// dispatch
	disp := &ast.SwitchStmt{Tag: idx, Body: &ast.BlockStmt{}}
	for i, e := range cases {
		var body []ast.Stmt
		if e.hasAssig {
			rhs := []ast.Expr{e.rv}
			if len(e.lhs) == 2 {
				rhs = append(rhs, e.rk)
			}
			for j := range e.lhs {
				e.lhs[j] = in.fixExpr(e.lhs[j])
			}
			body = append(body, &ast.AssignStmt{Lhs: e.lhs, Tok: e.tok, Rhs: rhs})
			if e.tok == token.DEFINE {
				var used []ast.Expr
				for _, l := range e.lhs {
					if li, ok := l.(*ast.Ident); ok && li.Name != "_" {
						used = append(used, id(li.Name))
					}
				}
				if len(used) > 0 {
					body = append(body, assign(blank(len(used)), used...))
				}
			}
		}
		body = append(body, in.list(e.cc.Body)...)
		disp.Body.List = append(disp.Body.List, &ast.CaseClause{List: []ast.Expr{intLit(i)}, Body: body})
	}
	disp.Body.List = append(disp.Body.List, &ast.CaseClause{Body: []ast.Stmt{
		&ast.ExprStmt{X: &ast.CallExpr{Fun: id("panic"), Args: []ast.Expr{&ast.BasicLit{Kind: token.STRING, Value: `"zsim: unreachable select index"`}}}},
	}})
	var d ast.Stmt = disp
	if label != nil {
		d = &ast.LabeledStmt{Label: label, Stmt: disp}
	}
	out = append(out, d)
	return &ast.BlockStmt{List: out}
}
