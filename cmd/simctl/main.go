// simctl drives the deterministic-simulation checks of /verif: it makes a
// scratch copy of /repo's working tree, instruments it, injects the harness
// of a property, builds it with go1.26.8, runs seeded worker processes,
// confirms and reports violations, and writes the evidence file.
package main

import (
	"bufio"
	"encoding/json"
	"flag"
	"fmt"
	"io"
	"os"
	"os/exec"
	"path/filepath"
	"regexp"
	"sort"
	"strconv"
	"strings"
	"sync"
	"time"
)

var (
	verifDir = "/verif"
	repoDir  = "/repo"
)

// packages rewritten by the instrumenter (same list for every property so
// that the build cache is shared).
var instrPkgs = []string{
	"lib/breaker", "lib/collection", "lib/executors", "lib/mr", "lib/syncx", "lib/threading", "lib/timex",
	"lib/limit", "lib/load", "lib/discov", "lib/discov/internal", "lib/store/cache", "lib/store/sqlc",
	"lib/store/sqlx", "lib/store/redis", "lib/store/kv", "lib/errorx", "lib/mathx", "lib/hash",
	"api/handler", "api", "api/token", "rpc/internal/serverinterceptors", "rpc/internal/clientinterceptors",
	"rpc/internal/balancer/p2c", "rpc/internal/auth", "lib/proc", "lib/codec",
}

type propCfg struct {
	level     string
	quickWall int // seconds of simulation (all units together)
	thorWall  int
	chunk     int64 // seeds per worker process
	noInstr   bool  // harness runs on un-instrumented code
}

var props = map[string]*propCfg{
	"C11": {level: "fault_enumeration", quickWall: 25, thorWall: 300, chunk: 2000},
	"C07": {level: "exploration", quickWall: 25, thorWall: 900, chunk: 1000},
	"C10": {level: "exploration", quickWall: 25, thorWall: 900, chunk: 1000},
	// several harness units share the budget
	"C01": {level: "exploration", quickWall: 44, thorWall: 900, chunk: 400},
	"C09": {level: "exploration", quickWall: 44, thorWall: 900, chunk: 400},
	"C04": {level: "exploration", quickWall: 39, thorWall: 900, chunk: 400},
	"C02": {level: "exploration", quickWall: 36, thorWall: 900, chunk: 400},
	"C12": {level: "exploration", quickWall: 36, thorWall: 900, chunk: 400},
	"C06": {level: "exploration", quickWall: 35, thorWall: 900, chunk: 200},
}

func cfgOf(id string) *propCfg {
	if c, ok := props[id]; ok {
		return c
	}
	return &propCfg{level: "exploration", quickWall: 25, thorWall: 600, chunk: 400}
}

func goEnv() []string {
	env := os.Environ()
	env = append(env, "GOFLAGS=-mod=mod", "GOPROXY=off", "GOSUMDB=off", "GOTOOLCHAIN=local", "GONOSUMDB=*", "GONOSUMCHECK=1", "GOWORK=off")
	return env
}

func goBin() string {
	if p, err := exec.LookPath("go1.26.8"); err == nil {
		return p
	}
	return "/opt/veriftools/go1.26.8/bin/go"
}

func run(dir string, env []string, name string, args ...string) (string, error) {
	cmd := exec.Command(name, args...)
	cmd.Dir = dir
	cmd.Env = env
	out, err := cmd.CombinedOutput()
	return string(out), err
}

func infra(format string, a ...any) {
	fmt.Fprintf(os.Stderr, "simctl: INFRASTRUCTURE FAILURE: "+format+"\n", a...)
	os.Exit(2)
}

type unit struct {
	pkg string // package dir relative to module root
	bin string
}

// functions of the code under test that get a simulation seam (a nil-by-default hook variable the harness may
// set; inserted into the scratch copy by the instrumenter, never into /repo)
var (
	seams = []string{"lib/discov/internal:NewClient", "lib/logx:gzipFile"}
	// packages that are not rewritten (their goroutines are adopted as tasks when they reach the runtime) but carry a seam
	seamOnlyPkgs = []string{"lib/logx"}
	argSeams     = []string{"lib/discov/internal:stateWatcher.watch"}
	// packages without synchronisation of their own whose loops get a scheduling point per iteration, so that
	// two tasks inside the same pure computation can be interleaved (state shared through a receiver)
	preemptPkgs = []string{"lib/codec"}
)

// prepare builds the scratch copy for a property and returns it with its units.
func prepare(id string, instrument bool) (string, []unit) {
	base := os.Getenv("VERIF_SCRATCH")
	if base == "" {
		base = "/var/tmp"
	}
	os.MkdirAll(base, 0o755)
	scratch, err := os.MkdirTemp(base, "zsim-"+id+"-")
	if err != nil {
		infra("mktemp: %v", err)
	}
	t0 := time.Now()
	if out, err := run("/", os.Environ(), "rsync", "-a", "--exclude", ".git", repoDir+"/", scratch+"/"); err != nil {
		infra("rsync: %v\n%s", err, out)
	}
	if pf := os.Getenv("VERIF_PATCH"); pf != "" {
		// testing aid: apply a patch to the scratch copy only (/repo is untouched)
		if out, err := run(scratch, os.Environ(), "patch", "-p1", "-s", "-i", pf); err != nil {
			cleanup(scratch)
			infra("VERIF_PATCH %s does not apply: %v\n%s", pf, err, out)
		}
	}
	zdst := filepath.Join(scratch, "internal", "zsim")
	os.MkdirAll(zdst, 0o755)
	if out, err := run("/", os.Environ(), "rsync", "-a", filepath.Join(verifDir, "simrt", "zsim")+"/", zdst+"/"); err != nil {
		infra("copy zsim: %v\n%s", err, out)
	}
	if out, err := run(scratch, goEnv(), goBin(), "mod", "edit", "-require=github.com/anishathalye/porcupine@v1.3.0"); err != nil {
		infra("go mod edit: %v\n%s", err, out)
	}
	if instrument {
		out, err := run(scratch, goEnv(), filepath.Join(verifDir, "bin", "instr"), "-dir", scratch, "-pkgs", strings.Join(instrPkgs, ","),
			"-seams", strings.Join(seams, ","), "-argseams", strings.Join(argSeams, ","), "-preempt", strings.Join(preemptPkgs, ","), "-seamonly", strings.Join(seamOnlyPkgs, ","))
		if err != nil {
			cleanup(scratch)
			infra("instrumenter failed (a construct it cannot handle, or the tree does not type-check): %v\n%s", err, out)
		}
	}
	// harness files
	hroot := filepath.Join(verifDir, "harness", id)
	seen := map[string]bool{}
	var units []unit
	croot := filepath.Join(verifDir, "harness", "_common")
	filepath.Walk(croot, func(p string, fi os.FileInfo, err error) error {
		if err != nil || fi.IsDir() {
			return nil
		}
		rel, _ := filepath.Rel(croot, p)
		dst := filepath.Join(scratch, rel)
		os.MkdirAll(filepath.Dir(dst), 0o755)
		b, _ := os.ReadFile(p)
		os.WriteFile(dst, b, 0o644)
		return nil
	})
	filepath.Walk(hroot, func(p string, fi os.FileInfo, err error) error {
		if err != nil || fi.IsDir() {
			return nil
		}
		rel, _ := filepath.Rel(hroot, p)
		dst := filepath.Join(scratch, rel)
		os.MkdirAll(filepath.Dir(dst), 0o755)
		b, _ := os.ReadFile(p)
		os.WriteFile(dst, b, 0o644)
		d := filepath.Dir(rel)
		if strings.HasSuffix(rel, "_test.go") && !seen[d] {
			if strings.Contains(string(b), "func TestZsim") || hasZsimTest(filepath.Dir(p)) {
				seen[d] = true
				units = append(units, unit{pkg: d})
			}
		}
		return nil
	})
	if len(units) == 0 {
		cleanup(scratch)
		infra("no harness found for %s under %s", id, hroot)
	}
	sort.Slice(units, func(i, j int) bool { return units[i].pkg < units[j].pkg })
	os.MkdirAll(filepath.Join(scratch, ".zbin"), 0o755)
	var wg sync.WaitGroup
	errs := make([]string, len(units))
	for i := range units {
		units[i].bin = filepath.Join(scratch, ".zbin", strings.ReplaceAll(units[i].pkg, "/", "_")+".test")
		wg.Add(1)
		go func(i int) {
			defer wg.Done()
			out, err := run(scratch, goEnv(), goBin(), "test", "-c", "-trimpath", "-tags", "verif", "-vet=off", "-o", units[i].bin, "./"+units[i].pkg)
			if err != nil {
				errs[i] = fmt.Sprintf("build of %s failed: %v\n%s", units[i].pkg, err, out)
			}
		}(i)
	}
	wg.Wait()
	for _, e := range errs {
		if e != "" {
			cleanup(scratch)
			infra("%s", e)
		}
	}
	fmt.Fprintf(os.Stderr, "simctl: scratch %s ready in %.1fs (%d unit(s))\n", scratch, time.Since(t0).Seconds(), len(units))
	return scratch, units
}

func hasZsimTest(dir string) bool {
	ents, _ := os.ReadDir(dir)
	for _, e := range ents {
		if strings.HasSuffix(e.Name(), "_test.go") {
			b, _ := os.ReadFile(filepath.Join(dir, e.Name()))
			if strings.Contains(string(b), "func TestZsim") {
				return true
			}
		}
	}
	return false
}

func cleanup(scratch string) {
	if os.Getenv("VERIF_KEEP") != "" {
		fmt.Fprintf(os.Stderr, "simctl: keeping %s\n", scratch)
		return
	}
	os.RemoveAll(scratch)
}

// ---- worker results (mirror of zsim.WorkerResult) ----

type viol struct {
	Seed   int64  `json:"seed"`
	Class  string `json:"class"`
	Msg    string `json:"msg"`
	Replay string `json:"replay"`
	Count  int    `json:"count"`
	MinRun int    `json:"minimise_runs"`
}

type workerResult struct {
	Property     string           `json:"property"`
	Harness      string           `json:"harness"`
	SeedFrom     int64            `json:"seed_from"`
	Runs         int64            `json:"runs"`
	Nontrivial   int64            `json:"nontrivial"`
	Hashes       []string         `json:"hashes"`
	Faults       map[string]int   `json:"faults"`
	Probes       map[string]int   `json:"probes"`
	Strategies   map[string]int   `json:"strategies"`
	SimTimeNs    int64            `json:"sim_time_ns"`
	Steps        int64            `json:"steps"`
	SchedPoints  int64            `json:"sched_points"`
	StepLimit    int              `json:"step_limit"`
	Inconclusive int              `json:"inconclusive"`
	Adopted      int              `json:"adopted"`
	Violations   []viol           `json:"violations"`
	Samples      []map[string]any `json:"samples"`
	Nondet       []int64          `json:"nondet_seeds"`
	WallS        float64          `json:"wall_s"`
	Rule         string           `json:"rule"`
	Real         []string         `json:"real"`
	Stub         []string         `json:"stub"`
	Done         bool             `json:"done"`
	Extra        map[string]any   `json:"extra"`
}

type unitAgg struct {
	unit       unit
	harness    string
	runs       int64
	nontrivial int64
	hashes     map[string]struct{}
	faults     map[string]int
	probes     map[string]int
	strategies map[string]int
	simNs      int64
	steps      int64
	schedPts   int64
	stepLimit  int
	inconcl    int
	adopted    int
	viols      map[string]*viol
	samples    []map[string]any
	nondet     []int64
	rule       string
	real, stub []string
	crashes    []string
	seeds      [][2]int64
	extra      map[string]any
}

func newAgg(u unit) *unitAgg {
	return &unitAgg{unit: u, hashes: map[string]struct{}{}, faults: map[string]int{}, probes: map[string]int{},
		strategies: map[string]int{}, viols: map[string]*viol{}, extra: map[string]any{}}
}

func (a *unitAgg) merge(w *workerResult) {
	a.harness = w.Harness
	a.runs += w.Runs
	a.nontrivial += w.Nontrivial
	for _, h := range w.Hashes {
		a.hashes[h] = struct{}{}
	}
	for k, v := range w.Faults {
		a.faults[k] += v
	}
	for k, v := range w.Probes {
		a.probes[k] += v
	}
	for k, v := range w.Strategies {
		a.strategies[k] += v
	}
	a.simNs += w.SimTimeNs
	a.steps += w.Steps
	a.schedPts += w.SchedPoints
	a.stepLimit += w.StepLimit
	a.inconcl += w.Inconclusive
	a.adopted += w.Adopted
	for i := range w.Violations {
		v := w.Violations[i]
		if o, ok := a.viols[v.Class]; ok {
			o.Count += v.Count
		} else {
			a.viols[v.Class] = &v
		}
	}
	if len(a.samples) < 3 {
		a.samples = append(a.samples, w.Samples...)
		if len(a.samples) > 3 {
			a.samples = a.samples[:3]
		}
	}
	a.nondet = append(a.nondet, w.Nondet...)
	a.rule, a.real, a.stub = w.Rule, w.Real, w.Stub
	a.seeds = append(a.seeds, [2]int64{w.SeedFrom, w.SeedFrom + w.Runs})
	for k, v := range w.Extra {
		a.extra[k] = v
	}
}

func workerEnv(extra ...string) []string {
	env := os.Environ()
	env = append(env, "GODEBUG=asynctimerchan=0,randseednop=0", "TZ=UTC")
	return append(env, extra...)
}

// runUnit runs seeded worker processes for one unit until wall seconds are used up.
func runUnit(u unit, scratch, tier, mode string, seedBase int64, wall time.Duration, chunk int64, procs int, gomaxprocs int, maxRuns int64) *unitAgg {
	agg := newAgg(u)
	var mu sync.Mutex
	deadline := time.Now().Add(wall)
	var next int64
	var wg sync.WaitGroup
	rdir := filepath.Join(scratch, ".zreplay")
	os.MkdirAll(rdir, 0o755)
	os.MkdirAll(filepath.Join(scratch, ".ztmp"), 0o755)
	for p := 0; p < procs; p++ {
		wg.Add(1)
		go func(p int) {
			defer wg.Done()
			for {
				mu.Lock()
				idx := next
				next++
				total := agg.runs
				mu.Unlock()
				left := time.Until(deadline)
				if left < 500*time.Millisecond || (maxRuns > 0 && (total >= maxRuns || idx*chunk >= maxRuns)) {
					return
				}
				from := seedBase*1_000_000 + idx*chunk + 1
				out := filepath.Join(scratch, ".zbin", fmt.Sprintf("res-%s-%d.json", filepath.Base(u.bin), idx))
				env := workerEnv(
					"ZSIM_MODE="+mode, "ZSIM_TIER="+tier,
					"ZSIM_FROM="+strconv.FormatInt(from, 10), "ZSIM_N="+strconv.FormatInt(chunk, 10),
					"ZSIM_WALL="+strconv.Itoa(int(left.Seconds())+1), "ZSIM_OUT="+out, "ZSIM_REPLAY_DIR="+rdir,
					"ZSIM_TMP="+filepath.Join(scratch, ".ztmp"))
				if gomaxprocs > 0 {
					env = append(env, "GOMAXPROCS="+strconv.Itoa(gomaxprocs))
				}
				cmd := exec.Command(u.bin, "-test.run", "^TestZsim", "-test.timeout", "0")
				cmd.Dir = filepath.Join(scratch, u.pkg)
				cmd.Env = env
				outb, err := runLimited(cmd, left+5*time.Minute)
				var w workerResult
				b, rerr := os.ReadFile(out)
				if rerr == nil {
					rerr = json.Unmarshal(b, &w)
				}
				os.Remove(out)
				mu.Lock()
				if rerr == nil {
					agg.merge(&w)
				}
				if (err != nil || rerr != nil || !w.Done) && strings.Contains(outb, "panic:") && strings.Contains(outb, "github.com/gotid/god/") {
					if v := crashViolation(u, scratch, rdir, out, outb, tier); v != nil {
						if o, ok := agg.viols[v.Class]; ok {
							o.Count++
						} else {
							agg.viols[v.Class] = v
						}
						os.Remove(out + ".seed")
						mu.Unlock()
						continue
					}
				}
				if err != nil || rerr != nil || !w.Done {
					tail := outb
					if len(tail) > 3000 {
						tail = tail[len(tail)-3000:]
					}
					agg.crashes = append(agg.crashes, fmt.Sprintf("worker seeds %d.. (%s): err=%v result=%v\n%s", from, u.pkg, err, rerr, tail))
				}
				if mode == "selftest" && len(outb) > 0 && strings.Contains(outb, "NONDET") {
					if len(outb) > 4000 {
						outb = outb[:4000] + "\n...(truncated)"
					}
					fmt.Fprintln(os.Stderr, outb)
				}
				mu.Unlock()
				if err != nil {
					return
				}
			}
		}(p)
	}
	wg.Wait()
	return agg
}

// crashViolation: a worker died with a Go panic inside the library (not a harness task: those are recovered).
// The seed that was running is re-executed alone in a fresh process; if it kills that process again the crash
// is a reproducible violation ("process-crash") whose replay file names the seed.
func crashViolation(u unit, scratch, rdir, out, outb, tier string) *viol {
	b, err := os.ReadFile(out + ".seed")
	if err != nil {
		return nil
	}
	seed, err := strconv.ParseInt(strings.TrimSpace(string(b)), 10, 64)
	if err != nil {
		return nil
	}
	first := ""
	for _, ln := range strings.Split(outb, "\n") {
		if strings.HasPrefix(ln, "panic:") || strings.HasPrefix(ln, "fatal error:") {
			first = ln
			break
		}
	}
	rp := map[string]any{"property": currentProp, "harness": filepath.Base(u.pkg), "seed": seed, "tier": tier, "class": "process-crash",
		"msg": "a goroutine of the library panicked and took the process down: " + first, "hash": "", "ops": []int{}, "sched": []int{}, "fault": []int{}, "log": []string{first}}
	path := filepath.Join(rdir, fmt.Sprintf("crash-%s-%d.json", strings.ReplaceAll(u.pkg, "/", "_"), seed))
	jb, _ := json.MarshalIndent(rp, "", " ")
	os.WriteFile(path, jb, 0o644)
	ok, _ := confirm(u, scratch, path, false)
	if !ok {
		return nil
	}
	return &viol{Seed: seed, Class: "process-crash", Msg: rp["msg"].(string), Replay: path, Count: 1}
}

func runLimited(cmd *exec.Cmd, limit time.Duration) (string, error) {
	var buf strings.Builder
	pr, pw := io.Pipe()
	cmd.Stdout = pw
	cmd.Stderr = pw
	done := make(chan struct{})
	go func() {
		sc := bufio.NewReader(pr)
		tmp := make([]byte, 4096)
		for {
			n, err := sc.Read(tmp)
			if n > 0 && buf.Len() < 1<<20 {
				buf.Write(tmp[:n])
			}
			if err != nil {
				break
			}
		}
		close(done)
	}()
	if err := cmd.Start(); err != nil {
		pw.Close()
		return "", err
	}
	timer := time.AfterFunc(limit, func() { cmd.Process.Kill() })
	err := cmd.Wait()
	timer.Stop()
	pw.Close()
	<-done
	return buf.String(), err
}

// ---- known findings ----

type finding struct {
	Property string `json:"property"`
	Status   string `json:"status"` // open | fixed
	Class    string `json:"class"`
	Harness  string `json:"harness,omitempty"`
	Match    string `json:"match,omitempty"` // regexp on the violation message
	What     string `json:"what"`
	Commit   string `json:"commit,omitempty"`
}

func loadFindings() []finding {
	var out []finding
	f, err := os.Open(filepath.Join(verifDir, "known_findings.jsonl"))
	if err != nil {
		return nil
	}
	defer f.Close()
	sc := bufio.NewScanner(f)
	sc.Buffer(make([]byte, 1<<20), 1<<20)
	for sc.Scan() {
		line := strings.TrimSpace(sc.Text())
		if line == "" || strings.HasPrefix(line, "#") {
			continue
		}
		var fd finding
		if err := json.Unmarshal([]byte(line), &fd); err == nil {
			out = append(out, fd)
		}
	}
	return out
}

func matchFinding(fs []finding, id, harness string, v *viol) *finding {
	for i := range fs {
		f := &fs[i]
		if f.Status != "open" || f.Property != id || f.Class != v.Class {
			continue
		}
		if f.Harness != "" && f.Harness != harness {
			continue
		}
		if f.Match != "" {
			if ok, _ := regexp.MatchString(f.Match, v.Msg); !ok {
				continue
			}
		}
		return f
	}
	return nil
}

// confirm replays a violation's replay file in a fresh process.
func confirm(u unit, scratch, path string, verbose bool) (bool, string) {
	os.MkdirAll(filepath.Join(scratch, ".ztmp"), 0o755)
	env := workerEnv("ZSIM_MODE=replay", "ZSIM_REPLAY="+path, "ZSIM_TMP="+filepath.Join(scratch, ".ztmp"))
	if verbose {
		env = append(env, "ZSIM_VERBOSE=1")
	}
	cmd := exec.Command(u.bin, "-test.run", "^TestZsim", "-test.timeout", "0")
	cmd.Dir = filepath.Join(scratch, u.pkg)
	cmd.Env = env
	out, _ := runLimited(cmd, 10*time.Minute)
	if strings.Contains(out, "REPLAY-CRASH-SEED") && !strings.Contains(out, "REPLAY-RESULT") && (strings.Contains(out, "panic:") || strings.Contains(out, "fatal error:")) {
		return true, out // the seed killed the fresh process again
	}
	return strings.Contains(out, "REPLAY-REPRODUCED"), out
}

var currentProp string

func check(id, tier string, seed int64) int {
	currentProp = id
	t0 := time.Now()
	cfg := cfgOf(id)
	scratch, units := prepare(id, !cfg.noInstr)
	defer cleanup(scratch)
	wall := time.Duration(cfg.quickWall) * time.Second
	if tier == "thorough" {
		wall = time.Duration(cfg.thorWall) * time.Second
	}
	if s := os.Getenv("VERIF_WALL"); s != "" {
		if n, err := strconv.Atoi(s); err == nil {
			wall = time.Duration(n) * time.Second
		}
	}
	procs := 16
	if s := os.Getenv("VERIF_PROCS"); s != "" {
		if n, err := strconv.Atoi(s); err == nil && n > 0 {
			procs = n
		}
	}
	per := wall / time.Duration(len(units))
	var aggs []*unitAgg
	simStart := time.Now()
	for _, u := range units {
		aggs = append(aggs, runUnit(u, scratch, tier, "search", seed, per, cfg.chunk, procs, 0, 0))
	}
	simWall := time.Since(simStart).Seconds()
	findings := loadFindings()
	exit := 0
	nviol := 0
	unconfirmed := 0
	var lines []string
	var known []string
	for _, a := range aggs {
		if len(a.crashes) > 0 {
			fmt.Fprintln(os.Stderr, "simctl: worker failure (first of", len(a.crashes), "):", a.crashes[0])
			infra("%d worker process(es) of %s crashed or produced no result", len(a.crashes), a.unit.pkg)
		}
		var classes []string
		for c := range a.viols {
			classes = append(classes, c)
		}
		sort.Strings(classes)
		for _, c := range classes {
			v := a.viols[c]
			ok, out := confirm(a.unit, scratch, v.Replay, false)
			if !ok && strings.Contains(out, "REPLAY-SAMECLASS-DIFFERENT-HASH") {
				// The same violation, but not the same event log. The harnesses and the unchanged tree are deterministic
				// (selftest gate), so the code under test has a source of nondeterminism of its own (a sync.Pool whose
				// contents depend on the processor a goroutine runs on, say). Accepted if the class reproduces twice more.
				ok2, out2 := confirm(a.unit, scratch, v.Replay, false)
				ok3, out3 := confirm(a.unit, scratch, v.Replay, false)
				if (ok2 || strings.Contains(out2, "REPLAY-SAMECLASS-DIFFERENT-HASH")) && (ok3 || strings.Contains(out3, "REPLAY-SAMECLASS-DIFFERENT-HASH")) {
					ok = true
					v.Msg += " [replays with the same violation class; the event log varies from process to process: the code under test is itself nondeterministic]"
				}
			}
			if !ok {
				// never reported: a violation must reproduce from its replay file in a fresh process
				if len(out) > 3000 {
					out = out[len(out)-3000:]
				}
				fmt.Fprintln(os.Stderr, out)
				fmt.Fprintf(os.Stderr, "simctl: violation %s/%s (seed %d) did not reproduce from its replay file in a fresh process; it is not reported\n", id, c, v.Seed)
				unconfirmed++
				continue
			}
			if f := matchFinding(findings, id, a.harness, v); f != nil {
				known = append(known, fmt.Sprintf("KNOWN-FINDING: property=%s %s [class %s, %d run(s), e.g. seed %d]", id, f.What, c, v.Count, v.Seed))
				continue
			}
			dst := filepath.Join(verifDir, "replays", filepath.Base(v.Replay))
			os.MkdirAll(filepath.Dir(dst), 0o755)
			b, _ := os.ReadFile(v.Replay)
			os.WriteFile(dst, b, 0o644)
			lines = append(lines, fmt.Sprintf("VIOLATION property=%s replay=%s", id, dst))
			fmt.Printf("violation class=%s harness=%s seed=%d runs=%d: %s\n", c, a.harness, v.Seed, v.Count, firstLines(v.Msg, 3))
			nviol += v.Count
			exit = 1
		}
	}
	if unconfirmed > 0 && exit == 0 {
		// something failed in a worker but nothing reproducible came out of it: tooling trouble, not a verdict
		writeEvidence(id, tier, seed, cfg, aggs, nviol, time.Since(t0).Seconds(), simWall, known)
		infra("%d violation(s) found by workers did not reproduce in a fresh process (determinism bug of the simulator or of a harness)", unconfirmed)
	}
	writeEvidence(id, tier, seed, cfg, aggs, nviol, time.Since(t0).Seconds(), simWall, known)
	for _, k := range known {
		fmt.Println(k)
	}
	for _, l := range lines {
		fmt.Println(l)
	}
	var runs int64
	for _, a := range aggs {
		runs += a.runs
	}
	fmt.Printf("simctl: %s %s: %d simulated runs in %.1fs (+%.1fs build), %d violation run(s), exit %d\n", id, tier, runs, simWall, time.Since(t0).Seconds()-simWall, nviol, exit)
	return exit
}

func firstLines(s string, n int) string {
	parts := strings.SplitN(s, "\n", n+1)
	if len(parts) > n {
		parts = parts[:n]
	}
	return strings.Join(parts, " | ")
}

func writeEvidence(id, tier string, seed int64, cfg *propCfg, aggs []*unitAgg, nviol int, wall, simWall float64, known []string) {
	var runs, nontriv, simNs, steps, schedPts int64
	distinct := 0
	faults := map[string]int{}
	probes := map[string]int{}
	strategies := map[string]int{}
	var samples []any
	var real, stub, rules []string
	inconcl, stepLimit := 0, 0
	perUnit := map[string]any{}
	extra := map[string]any{}
	for _, a := range aggs {
		runs += a.runs
		nontriv += a.nontrivial
		distinct += len(a.hashes)
		simNs += a.simNs
		steps += a.steps
		schedPts += a.schedPts
		inconcl += a.inconcl
		stepLimit += a.stepLimit
		for k, v := range a.faults {
			faults[k] += v
		}
		for k, v := range a.probes {
			probes[k] += v
		}
		for k, v := range a.strategies {
			strategies[k] += v
		}
		for _, s := range a.samples {
			if len(samples) < 4 {
				samples = append(samples, s)
			}
		}
		real = append(real, a.real...)
		stub = append(stub, a.stub...)
		if a.rule != "" {
			rules = append(rules, a.harness+": "+a.rule)
		}
		perUnit[a.unit.pkg] = map[string]any{"harness": a.harness, "runs": a.runs, "nontrivial_runs": a.nontrivial, "distinct_nontrivial": len(a.hashes)}
		for k, v := range a.extra {
			extra[k] = v
		}
	}
	if len(samples) == 0 {
		samples = append(samples, "no non-trivial run completed in this budget")
	}
	cov := map[string]any{
		"evaluations":            runs,
		"distinct_nontrivial":    distinct,
		"rule":                   strings.Join(rules, " || "),
		"samples":                samples,
		"nontrivial_runs":        nontriv,
		"runs_per_hour":          int64(float64(runs) / simWall * 3600),
		"seeds":                  fmt.Sprintf("VERIF_SEED=%d: seeds %d.. in chunks of %d per worker process", seed, seed*1_000_000+1, cfg.chunk),
		"simulated_time_s":       float64(simNs) / 1e9,
		"scheduler_steps":        steps,
		"scheduling_decisions":   schedPts,
		"faults_fired":           faults,
		"probes":                 probes,
		"strategies":             strategies,
		"distinct_measure":       "FNV-64 fingerprint of the run's event log (harness operations with results, injected faults, virtual time stamps, every scheduler decision taken among >= 2 runnable tasks)",
		"components_real":        real,
		"components_stub":        stub,
		"inconclusive_runs":      inconcl,
		"step_limit_runs":        stepLimit,
		"per_unit":               perUnit,
		"known_findings_printed": known,
	}
	for k, v := range extra {
		cov[k] = v
	}
	ev := map[string]any{
		"property_id": id,
		"tier":        tier,
		"seed":        seed,
		"level":       cfg.level,
		"coverage":    cov,
		"assumptions": []string{
			"testing/synctest (go1.26.8) provides the fake clock and quiescence detection; workers run with GODEBUG=asynctimerchan=0 because the module declares go 1.19",
			"interleavings are explored at the granularity of synchronisation operations (channel, mutex, wait-group, once, cond, atomic, goroutine start, select) of the instrumented packages; code between two such operations runs atomically",
			"the source-to-source instrumenter preserves the semantics of the rewritten packages (checked by running the repository's own tests on instrumented code and by the replay/determinism self-test)",
			"seeded search samples schedules and fault sequences; a clean batch is evidence, not proof",
		},
		"wall_s":     wall,
		"violations": nviol,
	}
	b, _ := json.MarshalIndent(ev, "", " ")
	os.MkdirAll(filepath.Join(verifDir, "evidence"), 0o755)
	os.WriteFile(filepath.Join(verifDir, "evidence", id+".json"), b, 0o644)
}

func replayCmd(path string) int {
	b, err := os.ReadFile(path)
	if err != nil {
		infra("cannot read %s: %v", path, err)
	}
	var rp struct {
		Property string `json:"property"`
		Harness  string `json:"harness"`
		Class    string `json:"class"`
	}
	if err := json.Unmarshal(b, &rp); err != nil {
		infra("bad replay file: %v", err)
	}
	abs, _ := filepath.Abs(path)
	cfg := cfgOf(rp.Property)
	scratch, units := prepare(rp.Property, !cfg.noInstr)
	defer cleanup(scratch)
	for _, u := range units {
		ok, out := confirm(u, scratch, abs, true)
		if strings.Contains(out, "REPLAY-RESULT") || strings.Contains(out, "REPLAY-CRASH-SEED") {
			if len(out) > 20000 {
				out = out[:20000] + "\n...(truncated)"
			}
			fmt.Println(out)
			if ok {
				fmt.Printf("VIOLATION property=%s replay=%s\n", rp.Property, abs)
				return 1
			}
		}
	}
	fmt.Println("simctl: the replay file did not reproduce its violation on the current tree")
	return 0
}

func selftest(id string, seeds int64) int {
	cfg := cfgOf(id)
	scratch, units := prepare(id, !cfg.noInstr)
	defer cleanup(scratch)
	bad := 0
	for _, u := range units {
		var sets []map[string]struct{}
		for _, gmp := range []int{1, 4, 16} {
			a := runUnit(u, scratch, "quick", "selftest", 7, 10*time.Minute, seeds/2+1, 2, gmp, seeds)
			if len(a.crashes) > 0 {
				fmt.Fprintln(os.Stderr, a.crashes)
				infra("selftest worker crashed")
			}
			fmt.Printf("selftest %s %s GOMAXPROCS=%d: %d seeds x3 executions, %d nondeterministic, %d distinct fingerprints, %d violations classes\n", id, u.pkg, gmp, a.runs, len(a.nondet), len(a.hashes), len(a.viols))
			bad += len(a.nondet)
			sets = append(sets, a.hashes)
		}
		for i := 1; i < len(sets); i++ {
			if !sameSet(sets[0], sets[i]) {
				fmt.Printf("selftest %s %s: fingerprint sets differ between GOMAXPROCS settings\n", id, u.pkg)
				bad++
			}
		}
	}
	if bad > 0 {
		fmt.Println("SELFTEST FAILED")
		return 2
	}
	fmt.Println("SELFTEST OK")
	return 0
}

func sameSet(a, b map[string]struct{}) bool {
	if len(a) != len(b) {
		return false
	}
	for k := range a {
		if _, ok := b[k]; !ok {
			return false
		}
	}
	return true
}

func repoTests() int {
	scratch, _ := prepare("C07", true)
	defer cleanup(scratch)
	var pats []string
	for _, p := range instrPkgs {
		pats = append(pats, "./"+p)
	}
	args := append([]string{"test", "-vet=off", "-count=1", "-timeout", "20m"}, pats...)
	out, err := run(scratch, goEnv(), goBin(), args...)
	fmt.Println(out)
	if err != nil {
		return 1
	}
	return 0
}

func main() {
	if d := os.Getenv("VERIF_DIR"); d != "" {
		verifDir = d
	}
	if d := os.Getenv("VERIF_REPO"); d != "" {
		repoDir = d
	}
	if len(os.Args) < 2 {
		fmt.Fprintln(os.Stderr, "usage: simctl check <id> [--tier quick|thorough] | replay <file> | selftest <id> [n] | repotests")
		os.Exit(2)
	}
	switch os.Args[1] {
	case "check":
		fs := flag.NewFlagSet("check", flag.ExitOnError)
		tier := fs.String("tier", "", "quick or thorough")
		id := os.Args[2]
		fs.Parse(os.Args[3:])
		if *tier == "" {
			*tier = os.Getenv("VERIF_TIER")
		}
		if *tier == "" {
			*tier = "quick"
		}
		seed := int64(1)
		if s := os.Getenv("VERIF_SEED"); s != "" {
			if n, err := strconv.ParseInt(s, 10, 64); err == nil {
				seed = n % 1_000_000_000
				if seed < 0 {
					seed = -seed
				}
			}
		}
		os.Exit(check(id, *tier, seed))
	case "replay":
		os.Exit(replayCmd(os.Args[2]))
	case "selftest":
		n := int64(60)
		if len(os.Args) > 3 {
			n, _ = strconv.ParseInt(os.Args[3], 10, 64)
		}
		os.Exit(selftest(os.Args[2], n))
	case "repotests":
		os.Exit(repoTests())
	default:
		fmt.Fprintln(os.Stderr, "unknown command")
		os.Exit(2)
	}
}
