#!/bin/bash
# Runs every recorded mutant (mutants/<ID>/*.diff, seeded/<ID>-<n>/patch.diff) through the quick check of its property
# on a scratch copy (VERIF_PATCH; /repo untouched) and tabulates detection. Usage: tools/regress.sh [ID...]
cd "$(dirname "$0")/.."
export GOFLAGS=-mod=mod GOPROXY=off GOSUMDB=off GOTOOLCHAIN=local
[ -x bin/simctl ] || ./setup.sh >/dev/null
export VERIF_REPLAYS_SKIP=1
out=${REGRESS_OUT:-/var/tmp/regress-$$.txt}; : > $out
want="$*"
for f in mutants/*/*.diff seeded/*/patch.diff; do
  case $f in
    mutants/*) id=$(echo $f | cut -d/ -f2); name=$(basename $f .diff);;
    seeded/*) d=$(echo $f | cut -d/ -f2); id=${d%%-*}; name=$d;;
  esac
  if [ -n "$want" ] && ! echo " $want " | grep -q " $id "; then continue; fi
  log=$(VERIF_PATCH=$PWD/$f ./bin/simctl check $id --tier quick 2>&1)
  rc=$?
  cls=$(echo "$log" | grep '^violation' | sed 's/violation class=\([^ ]*\).*/\1/' | sort -u | paste -sd,)
  echo "$id $name exit=$rc classes=${cls:-none}" | tee -a $out
done
rm -f replays/*.json; git checkout -- evidence 2>/dev/null
echo "---"; echo "detected: $(grep -c 'exit=1' $out) / $(wc -l < $out)   missed: $(grep 'exit=0' $out | awk '{print $1"/"$2}' | paste -sd' ')   infra: $(grep -c 'exit=2' $out)"
