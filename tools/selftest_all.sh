#!/bin/bash
# Determinism gate: every harness, N seeds x3 executions in separate processes at GOMAXPROCS 1/4/16.
cd "$(dirname "$0")/.."
export VERIF_DIR=$PWD
[ -x bin/simctl ] || ./setup.sh >/dev/null
N=${1:-80}; bad=0
for i in C01 C02 C04 C06 C07 C08 C09 C10 C11 C12 C14 C15 C16 C17 C18 C19; do
  r=$(./bin/simctl selftest $i $N 2>&1 | tail -1)
  echo "$i $r"; [ "$r" = "SELFTEST OK" ] || bad=1
done
exit $bad
