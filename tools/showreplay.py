#!/usr/bin/env python3
import json,glob,sys
pat=sys.argv[1]
sched='-s' in sys.argv
for f in sorted(glob.glob(pat)):
    d=json.load(open(f))
    L=lambda x: len(x or [])
    print('=====',f.split('/')[-1],d['class'],'tapes',L(d['ops']),L(d['sched']),L(d['fault']),'orig',d['orig_tape_lens'])
    print(d['msg'][:400])
    for l in d['log']:
        parts=l.split(' ',2)
        if not sched and len(parts)>1 and parts[1]=='s': continue
        print('  ',l)
