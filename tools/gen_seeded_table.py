#!/usr/bin/env python3
# Rewrites the table of DESIGN.md section 13 from seeded/*/meta.json.
import json, glob, os, re
rows = []
for d in glob.glob('/verif/seeded/*'):
    m = json.load(open(d + '/meta.json'))
    name = os.path.basename(d)
    i, n = name.split('-')
    det = m['detection'] if m.get('detected_by_quick_check') else 'NOT DETECTED: ' + m['detection']
    if m.get('superseded'):
        det += ' (SUPERSEDED: ' + m['superseded'] + ')'
    rows.append((i, int(n), '| %s | %s | %s | %s |' % (name, ', '.join('`%s`' % f for f in m['files']),
                 m['needs_to_manifest'].replace('|', '/'), det.replace('|', '/'))))
rows.sort()
table = '| id | file | needs | caught by (violation class) |\n|---|---|---|---|\n' + '\n'.join(r[2] for r in rows) + '\n'
p = '/verif/DESIGN.md'
s = open(p).read()
a = s.index('| id | file | needs | caught by (violation class) |')
b = a
lines = s[a:].split('\n')
k = 0
while k < len(lines) and lines[k].startswith('|'):
    k += 1
b = a + len('\n'.join(lines[:k])) + 1
s = s[:a] + table + s[b:]
open(p, 'w').write(s)
missed = sum('MISSED at first' in r[2] or 'at first the check' in r[2] for r in rows)
print(len(rows), 'seeded changes,', missed, 'missed at first')
