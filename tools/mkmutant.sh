#!/bin/bash
# usage: tools/mkmutant.sh <out.diff> <repo-relative-file> <sed-expression>
# writes a unified diff (a/ b/ prefixes) of the sed edit against /repo's file, without touching /repo
set -e
out=$(realpath -m $1); f=$2; expr=$3
tmp=$(mktemp -d /var/tmp/mkmut.XXXXXX)
mkdir -p $tmp/a/$(dirname $f) $tmp/b/$(dirname $f)
cp /repo/$f $tmp/a/$f; cp /repo/$f $tmp/b/$f
sed -i -E "$expr" $tmp/b/$f
mkdir -p $(dirname $out)
(cd $tmp && diff -u a/$f b/$f > $out) || true
rm -rf $tmp
if [ ! -s $out ]; then echo "mkmutant: no change produced" >&2; exit 1; fi
echo "wrote $out"
