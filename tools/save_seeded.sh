#!/bin/bash
# usage: tools/save_seeded.sh <ID> <n> "<what it needs to manifest>" "<detected: yes|no>" "<violation classes / remarks>"
ID=$1; N=$2; NEEDS=$3; DET=$4; CLS=$5
SRC=${SRCROOT:-/tmp/wt-out}/$ID/$N; AS=${AS:-$N}; DST=/verif/seeded/$ID-$AS
mkdir -p $DST
cp $SRC/patch.diff $SRC/demo_test.go $DST/
[ -f $SRC/notes.md ] && cp $SRC/notes.md $DST/
python3 - "$ID" "$AS" "$NEEDS" "$DET" "$CLS" <<'PY'
import json,sys,subprocess
ID,N,needs,det,cls=sys.argv[1:6]
files=[l[6:].strip() for l in open(f'/verif/seeded/{ID}-{N}/patch.diff') if l.startswith('+++ b/')]
meta={"property":ID,"files":files,"needs_to_manifest":needs,
 "source":"written by an independent sub-agent that was given only the property text and a scratch worktree",
 "confirmed":"tools/verify_seeded.sh %s %s: patch applies to /repo HEAD and builds; existing tests of the touched packages and of their importers pass with the patch; demo_test.go fails with the patch and passes without it"%(ID,N),
 "check_run":"VERIF_PATCH=<patch> ./bin/simctl check %s --tier quick (scratch copy only; /repo untouched)"%ID,
 "detected_by_quick_check":det=="yes","detection":cls,
 "repo_commit":subprocess.check_output(['git','-C','/repo','log','--format=%h','-1']).decode().strip()}
json.dump(meta,open(f'/verif/seeded/{ID}-{N}/meta.json','w'),indent=1,ensure_ascii=False)
PY
echo saved $DST
