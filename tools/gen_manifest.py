#!/usr/bin/env python3
# Regenerates /verif/MANIFEST.json from the table below (properties.jsonl is never touched).
import json
props=[json.loads(l) for l in open('/verif/properties.jsonl')]
T="deterministic simulation with fault injection (seeded scheduler + clock + fault tapes, replayable, minimised)"
claimed={
'C07':dict(ref="4/C07",text="Seeded deterministic simulation of every lib/mr entry point under a controlled scheduler (all goroutine interleavings at synchronisation operations are tape-decided), with cancel/panic/context faults drawn from the fault tape; oracle = exactly-once/at-most-once bookkeeping, worker bound, allowed-outcome set derived from the stamped history, and task-table leak detection after quiescence. Sampling, not proof."),
'C10':dict(ref="4/C10",text="Seeded histories of SetTimer/MoveTimer/RemoveTimer/Drain/Stop at mid-tick instants on the real wheel driven by its real ticker over the simulated clock (1..10 slots, delays up to 3.5 revolutions); oracle = reference map key -> (value, due tick) compared tick-exactly with the callbacks' virtual time stamps; long-run class drives SafeMap through its compaction thresholds. Sampling, not proof."),
'C11':dict(ref="4/C11",level="fault_enumeration",text="Every transaction case of a finite space (0..3 statements x body ending nil/error/panic at statement k x driver fault at open/begin/each exec/commit/rollback x body ignoring the exec error x Transact/TransactCtx) is enumerated round-robin by seed on a fresh connection over a recording fake database/sql driver inside the simulator; oracle = Begin/Commit/Rollback counts and returned error per case. Row mapping rides along as generated input (struct shapes via reflect.StructOf, column permutations, extra/missing columns, 0/1/3 rows, strict/partial) against a by-name reference."),
'C14':dict(ref="4/C14",text="Seeded histories of Pick/Done by 1-4 simulated callers over 1..8 stub connections with drawn latency/error profiles and spacing (0..30s) on the simulated clock; per-step invariants (picked in ready set, success in [0,1000] and moving in the right direction, lag within observed latencies, inflight = picks - completions) plus scripted health and starvation scenarios with statistically safe margins. Sampling, not proof."),
'C19':dict(ref="4/C19",text="Seeded record/size/clock histories through the real RotateLogger (worker and post-rotate goroutines, real files) under the daily and the size rule on the simulated calendar; directory and file contents inspected at quiescence after every write: every record present once and in order in current file or exactly one backup unless that backup was legitimately removed, size bound, deletions only of outdated/excess backups. Disk faults are not injected (no seam). Sampling, not proof."),
}
na={'C03':'pure function of (route table, method, path): no schedule, clock, fault or shared mutable state for a simulator to own',
'C05':'pure function of (struct type, document): nothing for deterministic simulation to decide',
'C13':'sequential data structure with no time, fault or interleaving in its property',
'C20':'pure string function (and the generator does not build offline)'}
m={"version":1,"setup_cmd":"./setup.sh",
 "hooks":{"guard":"verif","enable":"simctl copies /repo's working tree to a scratch directory, instruments it and injects harness files that carry //go:build verif; nothing guarded lives in /repo","baseline_off_cmd":json.load(open('/root/.vp/BASELINE.json'))['cmd'],"source_commits":[],"add_only":True},
 "engines":[{"name":"zsim","path":"simrt/zsim, cmd/instr, cmd/simctl","serves_properties":sorted(claimed),"kind_free_text":"deterministic simulation with fault injection: testing/synctest bubble (fake clock, quiescence) + cooperative seeded scheduler over source-instrumented packages + choice tapes (ops/sched/fault) with replay and delta-debug minimisation"}],
 "checks":[],"notes":"see DESIGN.md; known findings in known_findings.jsonl; exit 2 = tooling trouble, never a violation","not_applicable":[]}
for p in props:
    i=p['id']
    if i in claimed:
        c=claimed[i]
        m['checks'].append({"property_id":i,"quick_cmd":f"./check {i} quick","thorough_cmd":f"./check {i} thorough","evidence_file":f"/verif/evidence/{i}.json","replay_cmd_template":"./bin/simctl replay {path}","engine":"zsim","level_claimed":{"category":c.get('level',"exploration"),"text":c['text'],"design_ref":c['ref']},"level_note":c.get('note',"trusts testing/synctest, the instrumenter's semantic preservation (repo tests pass on instrumented code; replay self-test) and the harness oracle; interleavings at the granularity of synchronisation operations"),"technique":T})
    elif i in na:
        m['not_applicable'].append({"property_id":i,"reason":na[i]})
    else:
        m['not_applicable'].append({"property_id":i,"reason":"not claimed yet: simulation harness under construction (planned in DESIGN.md section 4)"})
json.dump(m,open('/verif/MANIFEST.json','w'),indent=1)
print("claimed:",sorted(claimed))
