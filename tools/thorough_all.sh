#!/bin/bash
# Runs the thorough tier of every claimed check (sequentially; each uses all cores). VERIF_SEED selects the seed base.
cd "$(dirname "$0")/.."
export VERIF_DIR=$PWD
[ -x bin/simctl ] || ./setup.sh >/dev/null
rc=0
for i in ${IDS:-C01 C02 C04 C06 C07 C08 C09 C10 C11 C12 C14 C15 C16 C17 C18 C19}; do
  ./check $i thorough 2>&1 | grep -v "^simctl: scratch" | cut -c1-400
  [ ${PIPESTATUS[0]} -eq 0 ] || rc=1
done
exit $rc
