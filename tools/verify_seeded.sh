#!/bin/bash
# usage: tools/verify_seeded.sh <ID> <n> [demo-dir]   (inputs in /tmp/wt-out/<ID>/<n>/)
# Confirms in a scratch worktree: patch applies+builds, existing tests of touched packages pass with the patch,
# the demo fails with the patch and passes without it. Then runs our check against the patch (VERIF_PATCH).
ID=$1; N=$2; SRC=${SRCROOT:-/tmp/wt-out}/$ID/$N
export GOFLAGS=-mod=mod GOPROXY=off GOSUMDB=off
W=/tmp/vt-$ID-$N
git -C /repo worktree remove --force $W >/dev/null 2>&1
git -C /repo worktree add --detach $W HEAD >/dev/null 2>&1 || { echo "cannot create worktree"; exit 2; }
cd $W
files=$(grep '^+++ b/' $SRC/patch.diff | sed 's|^+++ b/||')
dirs=$(for f in $files; do dirname $f; done | sort -u)
DEMODIR=${3:-$(echo "$dirs" | head -1)}
res="id=$ID-$N files=$(echo $files | tr '\n' ' ')"
if ! git apply $SRC/patch.diff 2>/tmp/vt-err; then echo "$res APPLY-FAILED $(cat /tmp/vt-err | head -3)"; git -C /repo worktree remove --force $W; exit 1; fi
if ! go build ./lib/... ./api/... ./rpc/... ./internal/... 2>/tmp/vt-err; then echo "$res BUILD-FAILED"; head -5 /tmp/vt-err; git -C /repo worktree remove --force $W; exit 1; fi
pk=""; for d in $dirs; do pk="$pk ./$d/..."; done
t1=$(go test -count=1 $pk 2>&1 | grep -v "^ok\|no test files" | grep "^--- FAIL\|^FAIL\|^panic" | head -5)
# importers of the touched packages
imps=$(for d in $dirs; do go list -f '{{.ImportPath}} {{join .Imports " "}}' ./lib/... ./api/... ./rpc/... ./gateway/... 2>/dev/null | grep "github.com/gotid/god/$d\( \|$\)" | awk '{print $1}'; done | sort -u | grep -v "/$d$" | head -40)
t2=""
if [ -n "$imps" ]; then t2=$(go test -count=1 $imps 2>&1 | grep -v "^ok\|no test files" | grep "^--- FAIL\|^FAIL\|^panic" | head -5); fi
cp $SRC/demo_test.go $DEMODIR/zz_demo_test.go
PAT=$(grep -o '^func Test[A-Za-z0-9_]*' $SRC/demo_test.go | sed 's/func //' | paste -sd'|')
d1=$(go test -count=1 -run "^($PAT)\$" ./$DEMODIR/ 2>&1 | tail -3 | tr '\n' ' ')
git apply -R $SRC/patch.diff
d0=$(go test -count=1 -run "^($PAT)\$" ./$DEMODIR/ 2>&1 | tail -3 | tr '\n' ' ')
cd /verif
git -C /repo worktree remove --force $W
echo "$res"
echo "  existing tests with patch: touched=[${t1:-all ok}] importers=[${t2:-all ok}]"
echo "  demo with patch:    $d1"
echo "  demo without patch: $d0"
VERIF_PATCH=$SRC/patch.diff ./bin/simctl check $ID --tier quick > /tmp/vt-check-$ID-$N.log 2>&1
echo "  our check ($ID quick): exit=$? $(grep -c '^VIOLATION' /tmp/vt-check-$ID-$N.log) violation line(s): $(grep '^violation' /tmp/vt-check-$ID-$N.log | head -2 | cut -c1-230)"
grep "INFRASTRUCTURE" /tmp/vt-check-$ID-$N.log | head -2
rm -f /verif/replays/*.json; git -C /verif checkout -- evidence 2>/dev/null
