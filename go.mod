module verif

go 1.26

require golang.org/x/tools v0.44.0

require (
	golang.org/x/mod v0.35.0 // indirect
	golang.org/x/sync v0.20.0 // indirect
)
