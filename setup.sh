#!/bin/bash
# Builds the verification framework from files on disk only (offline) and warms the Go build cache.
set -e
cd "$(dirname "$0")"
export GOFLAGS=-mod=mod GOPROXY=off GOSUMDB=off GOTOOLCHAIN=local GOWORK=off
GO=$(command -v go1.26.8 || echo /opt/veriftools/go1.26.8/bin/go)
mkdir -p bin evidence replays
$GO build -o bin/instr ./cmd/instr
$GO build -o bin/simctl ./cmd/simctl
# warm the build cache (instrumented copy of the repository + one harness) and prove determinism briefly
VERIF_WALL=3 ./bin/simctl check C07 --tier quick >/dev/null 2>&1 || true
git checkout -- evidence 2>/dev/null || true
echo "setup ok"
