//go:build verif

package mr

import (
	"context"
	"errors"
	"fmt"
	"sort"
	"testing"
	"time"

	"github.com/gotid/god/internal/zsim"
)

// C07 - MapReduce: exactly-once processing, bounded workers, clean
// termination. Real: all of lib/mr (instrumented), errorx. Stub: generator,
// mapper and reducer scripts, the context.

const (
	actNone = iota
	actCancelErr
	actCancelNil
	actPanic
)

type c07Item struct {
	pre, post time.Duration
	writes    int
	act       int
	actAfter  int // number of writes before the action
}

type c07Scenario struct {
	entry     int // 0 MapReduce 1 MapReduceVoid 2 MapReduceChan 3 ForEach 4 Finish 5 FinishVoid
	workers   int
	items     []c07Item
	genSleep  int // sleep 1ms after every genSleep-th item (0: never)
	genPanic  int // panic after this many items (-1: never)
	redMode   int // 0 consume all, 1 stop after redM, 2 panic after redM, 3 cancel after redM
	redM      int
	redWrites int
	ctxKind   int // 0 none, 1 cancel, 2 deadline
	ctxAt     time.Duration
	nilPanics bool // callbacks that panic do it with a nil value
	redNil    bool // the reducer's result is nil (a value like any other)
}

var c07Entries = [...]string{"MapReduce", "MapReduceVoid", "MapReduceChan", "ForEach", "Finish", "FinishVoid"}

func c07Gen(r *zsim.Run) c07Scenario {
	o, f := r.Ops, r.Fault
	var sc c07Scenario
	sc.entry = o.Intn(6)
	sc.workers = zsim.Pick(o, 2, 1, 3, 8)
	w := sc.workers
	ns := []int{2, 0, 1, w - 1, w, w + 1, 3 * w}
	if r.Tier == "thorough" {
		ns = append(ns, 40)
	}
	n := zsim.Pick(o, ns...)
	if n < 0 {
		n = 0
	}
	if n > 12 && r.Tier != "thorough" {
		n = 12
	}
	faulty := f.Intn(3) > 0
	sc.genPanic = -1
	for i := 0; i < n; i++ {
		var it c07Item
		it.writes = zsim.Pick(o, 1, 0, 2, 3)
		if o.Intn(3) == 1 {
			it.pre = time.Duration(o.Intn(5)) * time.Millisecond
		}
		if o.Intn(4) == 1 {
			it.post = time.Duration(o.Intn(5)) * time.Millisecond
		}
		if faulty && f.Intn(4) == 3 {
			it.act = 1 + f.Intn(3)
			it.actAfter = f.Intn(it.writes + 1)
		}
		sc.items = append(sc.items, it)
	}
	if o.Intn(4) == 1 {
		sc.genSleep = 1 + o.Intn(3)
	}
	if faulty && f.Intn(5) == 4 {
		sc.genPanic = f.Intn(n + 1)
		if n > 0 && f.Intn(2) == 1 {
			// two callbacks panic in the same call: only one of them can be recorded
			it := &sc.items[f.Intn(n)]
			it.act = actPanic
			it.actAfter = f.Intn(it.writes + 1)
		}
	}
	sc.redWrites = zsim.Pick(o, 1, 1, 0, 2)
	if o.Intn(3) == 2 {
		sc.redMode = 1
		sc.redM = o.Intn(n + 1)
	}
	if faulty && f.Intn(6) == 5 {
		sc.redMode = 2 + f.Intn(2)
		sc.redM = f.Intn(n + 1)
	}
	if faulty && f.Intn(5) == 4 {
		sc.ctxKind = 1 + f.Intn(2)
		sc.ctxAt = time.Duration(f.Intn(8)) * time.Millisecond
	}
	// a panic is a panic whatever its value: recover() hands back nil for panic(nil) under the module's
	// language version (go 1.19), so code that tells a panic by recover() != nil does not see this one
	sc.nilPanics = faulty && f.Intn(4) == 3
	sc.redNil = o.Intn(8) == 0
	if o.Intn(10) == 0 && sc.entry <= 2 {
		// the context ends in the very instant in which the result is produced: no callback takes time, the
		// cancellation is one more runnable task, and the scheduler decides who comes first - the reducer's write,
		// the cancellation, or the caller's look at both
		sc.ctxKind, sc.ctxAt, sc.genSleep, sc.genPanic = 1, 0, 0, -1
		sc.redMode, sc.redWrites = 0, 1
		if len(sc.items) > 2 {
			sc.items = sc.items[:2]
		}
		for i := range sc.items {
			sc.items[i].pre, sc.items[i].post, sc.items[i].act = 0, 0, 0
		}
	} else if o.Intn(12) == 0 && len(sc.items) > 0 {
		// two callbacks panic in the same call and nothing takes time: the generator after its last item and one
		// mapper - only one of them can be recorded, and whichever was must reach the caller
		sc.ctxKind, sc.genSleep, sc.redMode = 0, 0, 0
		sc.genPanic = len(sc.items)
		for i := range sc.items {
			sc.items[i].pre, sc.items[i].post, sc.items[i].act = 0, 0, 0
		}
		it := &sc.items[o.Intn(len(sc.items))]
		it.act, it.actAfter = actPanic, 0
	}
	return sc
}

type c07Cancel struct {
	inv, ret int64
	invAt    time.Duration // virtual time of the invocation
	err      error
}

type c07Panic struct {
	seq int64
	val string
}

type c07State struct {
	r          *zsim.Run
	sc         c07Scenario
	mapped     map[int]int
	written    map[int]int
	reduced    map[int]int
	conc       int
	maxConc    int
	cancels    []*c07Cancel
	panics     []c07Panic
	redInv     int64 // reducer's decisive action: first Write invoked / returned without write
	redInvAt   time.Duration
	redWrote   int
	redValue   any
	redAll     bool // the reducer saw its pipe closed
	genDone    bool
	running    int // user callbacks still executing
	ctxDoneAt  time.Duration
	ctxDoneSeq int64 // event sequence number right after the context was cancelled (0: not yet / deadline context)
	faulted    bool
}

var (
	c07ErrBoom = errors.New("boom")
)

func (st *c07State) cancelWith(cancel func(error), err error) {
	if st.sc.entry == 4 {
		// Finish: "cancel" is the function returning this error (nil: success)
		if err != nil {
			st.cancels = append(st.cancels, &c07Cancel{inv: st.r.Seq(), err: err})
			st.r.FaultFired("fn-error")
		}
		cancel(err)
		return
	}
	c := &c07Cancel{inv: st.r.Seq(), invAt: st.r.Now(), err: err}
	st.cancels = append(st.cancels, c)
	st.faulted = true
	st.r.FaultFired("cancel")
	cancel(err)
	c.ret = st.r.Seq()
}

func (st *c07State) raise(val string) {
	if st.sc.nilPanics {
		val = "<nil>"
	}
	st.panics = append(st.panics, c07Panic{st.r.Seq(), val})
	st.faulted = true
	st.r.FaultFired("panic")
	st.r.Logf("panic %s", val)
	if st.sc.nilPanics {
		var none any
		panic(none)
	}
	panic(val)
}

func (st *c07State) mapper(item any, w Writer, cancel func(error)) {
	i := item.(int)
	it := st.sc.items[i]
	st.mapped[i]++
	st.conc++
	st.running++
	if st.conc > st.maxConc {
		st.maxConc = st.conc
	}
	if st.conc > 1 {
		st.r.NonTrivial()
	}
	defer func() { st.conc--; st.running-- }()
	st.r.Logf("map %d", i)
	if it.pre > 0 {
		zsim.Sleep(it.pre)
	}
	for k := 0; k <= it.writes; k++ {
		if it.act != actNone && k == it.actAfter {
			switch it.act {
			case actCancelErr:
				if cancel != nil {
					st.cancelWith(cancel, fmt.Errorf("cancel-%d: %w", i, c07ErrBoom))
				}
			case actCancelNil:
				if cancel != nil {
					st.cancelWith(cancel, nil)
				}
			case actPanic:
				st.raise(fmt.Sprintf("mapper-panic-%d", i))
			}
		}
		if k < it.writes && w != nil {
			v := i*10 + k
			st.written[v]++
			w.Write(v)
		}
	}
	if it.post > 0 {
		zsim.Sleep(it.post)
	}
}

func (st *c07State) generate(source chan<- any) {
	st.running++
	defer func() { st.genDone = true; st.running-- }()
	for i := range st.sc.items {
		if st.sc.genPanic == i {
			st.raise("generator-panic")
		}
		zsim.Yield("gen.send")
		source <- i
		zsim.Woke("gen.sent")
		if st.sc.genSleep > 0 && (i+1)%st.sc.genSleep == 0 {
			zsim.Sleep(time.Millisecond)
		}
	}
	if st.sc.genPanic == len(st.sc.items) {
		st.raise("generator-panic")
	}
}

func (st *c07State) decisive() {
	if st.redInv == 0 {
		st.redInv = st.r.Seq()
		st.redInvAt = st.r.Now()
	}
}

func (st *c07State) reducer(pipe <-chan any, w Writer, cancel func(error)) {
	st.running++
	defer func() { st.running-- }()
	sum, cnt := 0, 0
	sc := st.sc
	for {
		if sc.redMode != 0 && cnt >= sc.redM {
			break
		}
		v, ok := zsim.Recv2(pipe)
		if !ok {
			st.redAll = true
			break
		}
		st.reduced[v.(int)]++
		sum += v.(int)
		cnt++
	}
	switch sc.redMode {
	case 2:
		st.raise("reducer-panic")
	case 3:
		st.cancelWith(cancel, fmt.Errorf("cancel-reducer: %w", c07ErrBoom))
	}
	for k := 0; k < sc.redWrites && w != nil; k++ {
		st.decisive()
		st.redWrote++
		var out any = sum
		if sc.redNil {
			out = nil
		}
		st.redValue = out
		st.r.Logf("reduce write %v", out)
		w.Write(out)
	}
	st.decisive()
}

func TestZsimC07(t *testing.T) {
	zsim.Main(t, zsim.Harness{
		Property: "C07", Name: "mr",
		Run:     c07Run,
		Horizon: 10 * time.Minute,
		Rule:    "scenario drawn from the ops/fault tapes (entry point, workers, items, per-item mapper script, reducer mode, generator, context, panics with a string or a nil value); non-trivial = at least two mapper callbacks overlapped or a cancel/panic/context fault fired; distinct = distinct event-log fingerprint (operations + scheduling decisions)",
		Real:    []string{"lib/mr (all entry points, instrumented)", "lib/errorx.AtomicError", "context"},
		Stub:    []string{"generator/mapper/reducer callbacks (scripts)", "context cancellation instants"},
	})
}

func c07Run(r *zsim.Run) {
	sc := c07Gen(r)
	if r.Fault.Intn(4) == 3 {
		// some runs also stall tasks at arbitrary scheduling points (pre-emption / GC pause) for up to 40 ms of virtual time
		r.StallUnit = time.Millisecond
		if k := r.Fault.Intn(4); k == 3 {
			r.StallSites = 6 // every visit of one class of sites stalls
		} else {
			r.StallOdds = []int{300, 40, 8}[k]
		}
	}
	st := &c07State{r: r, sc: sc, mapped: map[int]int{}, written: map[int]int{}, reduced: map[int]int{}, ctxDoneAt: -1}
	r.Logf("scenario entry=%s workers=%d items=%+v genSleep=%d genPanic=%d red=(mode %d m %d writes %d) ctx=(%d %v)",
		c07Entries[sc.entry], sc.workers, sc.items, sc.genSleep, sc.genPanic, sc.redMode, sc.redM, sc.redWrites, sc.ctxKind, sc.ctxAt)
	opts := []Option{WithWorkers(sc.workers)}
	if sc.ctxKind != 0 && sc.entry <= 3 {
		var ctx context.Context
		var cf context.CancelFunc
		if sc.ctxKind == 2 {
			ctx, cf = context.WithTimeout(context.Background(), sc.ctxAt)
			st.ctxDoneAt = sc.ctxAt
			defer cf()
		} else {
			ctx, cf = context.WithCancel(context.Background())
			r.Go("ctx-cancel", func() {
				zsim.Sleep(sc.ctxAt)
				st.ctxDoneAt = r.Now()
				r.Logf("ctx cancelled")
				cf()
				st.ctxDoneSeq = r.Seq()
			})
		}
		st.faulted = true
		opts = append(opts, WithContext(ctx))
	}
	var (
		val      any
		err      error
		panicked any
		didPanic bool
	)
	func() {
		returned := false
		defer func() {
			if p := recover(); p != nil || !returned {
				panicked, didPanic = p, true
			}
		}()
		switch sc.entry {
		case 0:
			val, err = MapReduce(st.generate, st.mapper, st.reducer, opts...)
		case 1:
			err = MapReduceVoid(st.generate, st.mapper, func(pipe <-chan any, cancel func(error)) {
				st.reducer(pipe, nil, cancel)
			}, opts...)
		case 2:
			src := make(chan any)
			r.Go("feeder", func() {
				defer func() {
					zsim.Yield("feeder.close")
					close(src)
					st.genDone = true
				}()
				for i := range sc.items {
					zsim.Yield("feeder.send")
					src <- i
					zsim.Woke("feeder.sent")
				}
			})
			val, err = MapReduceChan(src, st.mapper, st.reducer, opts...)
		case 3:
			ForEach(st.generate, func(item any) { st.mapper(item, nil, nil) }, opts...)
		case 4:
			var fns []func() error
			for i := range sc.items {
				i := i
				fns = append(fns, func() (e error) {
					st.mapper(i, nil, func(err error) { e = err })
					return
				})
			}
			st.genDone = true
			err = Finish(fns...)
		case 5:
			var fns []func()
			for i := range sc.items {
				i := i
				fns = append(fns, func() { st.mapper(i, nil, nil) })
			}
			st.genDone = true
			FinishVoid(fns...)
		}
		returned = true
	}()
	retSeq := r.Seq()
	retAt := r.Now()
	r.Logf("returned val=%v err=%v panic=%v", val, err, panicked)
	if st.ctxDoneAt >= 0 && st.ctxDoneAt <= retAt {
		r.FaultFired("ctx-done")
	}
	c07Check(r, st, val, err, panicked, didPanic, retSeq, retAt)
	if r.Failed() {
		return
	}
	// termination: once the generator has returned and every callback has
	// finished, no goroutine started by the call may be left.
	ok := r.WaitFor(2*time.Minute, 50*time.Millisecond, func() bool {
		return st.genDone && st.running == 0 && len(r.Alive(true)) == 0
	})
	if !ok {
		if !st.genDone || st.running != 0 {
			r.Failf("callbacks-blocked", "generator/mapper/reducer callbacks are still blocked inside the library 2 virtual minutes after the call returned (genDone=%v running=%d): %v", st.genDone, st.running, r.Alive(false))
			return
		}
		r.Failf("goroutine-leak", "goroutines started by the call are still alive after it returned and all callbacks finished: %v", r.Alive(true))
	}
}

func c07Check(r *zsim.Run, st *c07State, val any, err error, panicked any, didPanic bool, retSeq int64, retAt time.Duration) {
	sc := st.sc
	n := len(sc.items)
	// at-most-once and worker bound hold always
	for i, c := range st.mapped {
		if c > 1 {
			r.Failf("item-mapped-twice", "item %d was passed to the mapper %d times", i, c)
			return
		}
	}
	for v, c := range st.reduced {
		if c > st.written[v] {
			r.Failf("value-duplicated", "value %d reached the reducer %d times but was written %d times", v, c, st.written[v])
			return
		}
	}
	limit := sc.workers
	if sc.entry >= 4 {
		limit = n
	}
	if st.maxConc > limit {
		r.Failf("workers-exceeded", "%d mappers ran at the same time with %d workers configured", st.maxConc, limit)
		return
	}
	ctxFired := st.ctxDoneAt >= 0 && st.ctxDoneAt <= retAt
	clean := len(st.cancels) == 0 && len(st.panics) == 0 && !ctxFired
	if clean {
		consumesAll := sc.redMode == 0 || sc.entry >= 3
		if consumesAll {
			for i := 0; i < n; i++ {
				if st.mapped[i] != 1 {
					r.Failf("item-lost", "without cancellation item %d was mapped %d times (want exactly once)", i, st.mapped[i])
					return
				}
			}
			if sc.entry <= 2 {
				for v, c := range st.written {
					if st.reduced[v] != c {
						r.Failf("value-lost", "without cancellation value %d was written once but reached the reducer %d times", v, st.reduced[v])
						return
					}
				}
			}
		}
	}
	// allowed outcomes
	type outcome struct{ kind, detail string }
	var allowed []outcome
	minCancelRet := int64(1 << 62)
	for _, c := range st.cancels {
		if c.ret != 0 && c.ret < minCancelRet {
			minCancelRet = c.ret
		}
	}
	for _, c := range st.cancels {
		if c.inv < retSeq && c.inv < minCancelRet {
			e := c.err
			if e == nil {
				e = ErrCancelWithNil
			}
			allowed = append(allowed, outcome{"err", e.Error()})
		}
	}
	if ctxFired && sc.entry <= 2 {
		allowed = append(allowed, outcome{"err", context.DeadlineExceeded.Error()})
	}
	firstPanic := int64(1 << 62)
	for _, p := range st.panics {
		if p.seq < retSeq {
			allowed = append(allowed, outcome{"panic", p.val})
			if p.seq < firstPanic {
				firstPanic = p.seq
			}
		}
	}
	normalAllowed := false
	var normal outcome
	switch sc.entry {
	case 0, 1, 2:
		// a cancel records its error before anything that takes (virtual) time: a reducer that starts to write at a
		// later clock reading writes after the error was recorded, and the error wins over its value (without
		// stalls; a stalled canceller may be held before it records anything)
		cancelledEarlier := false
		for _, c := range st.cancels {
			if c.invAt < st.redInvAt && r.StallOdds == 0 && r.StallSites == 0 && sc.entry != 4 {
				cancelledEarlier = true
			}
		}
		// a reducer that starts to write when the context is already done has its value dropped by the writer
		ctxDoneBeforeWrite := sc.ctxKind == 2 && sc.ctxAt == 0 && sc.entry <= 3 || st.ctxDoneSeq != 0 && st.ctxDoneSeq < st.redInv
		if st.redInv != 0 && st.redInv < retSeq && st.redInv < minCancelRet && !ctxDoneBeforeWrite && (st.ctxDoneAt < 0 || st.redInvAt <= st.ctxDoneAt) {
			normalAllowed = true
			switch {
			case sc.redWrites >= 2 && sc.entry != 1 && sc.redMode < 2:
				normal = outcome{"panic", "多次写入聚合器"}
				if !clean && st.redWrote >= 1 && !cancelledEarlier {
					// the second write may have been dropped by a concurrent abort
					allowed = append(allowed, outcome{"val", fmt.Sprint(st.redValue)})
				}
			case st.redWrote == 1:
				normal = outcome{"val", fmt.Sprint(st.redValue)}
				if cancelledEarlier {
					normalAllowed = false // the recorded error wins over the value
				}
			case sc.entry == 1:
				normal = outcome{"err", "<nil>"}
			default:
				normal = outcome{"err", ErrReduceNoOutput.Error()}
			}
		}
	case 3, 5:
		normalAllowed = true
		normal = outcome{"err", "<nil>"}
	case 4:
		normalAllowed = len(st.cancels) == 0
		normal = outcome{"err", "<nil>"}
	}
	if normalAllowed {
		allowed = append(allowed, normal)
	}
	var actual outcome
	switch {
	case didPanic:
		actual = outcome{"panic", fmt.Sprint(panicked)}
	case err != nil:
		actual = outcome{"err", err.Error()}
	case sc.entry == 0 || sc.entry == 2:
		actual = outcome{"val", fmt.Sprint(val)}
	default:
		actual = outcome{"err", "<nil>"}
	}
	found := false
	for _, a := range allowed {
		if a == actual {
			found = true
		}
	}
	if !found && didPanic && fmt.Sprint(panicked) == "send on closed channel" && st.redWrote > 0 && (len(st.cancels) > 0 || ctxFired) {
		r.Failf("reducer-write-races-cancel", "the reducer's Write raced with a cancel/finish closing the output channel: the call ended with a runtime panic (send on closed channel) instead of one of %v", allowed)
		return
	}
	if !found {
		sort.Slice(allowed, func(i, j int) bool { return allowed[i].detail < allowed[j].detail })
		r.Failf("wrong-result", "call ended with %v but the history allows only %v", actual, allowed)
		return
	}
	// A panic must be re-raised in the caller when nothing else could decide
	// the result first: either there is no competing normal result (the
	// reducer itself panicked; ForEach/Finish*), or the reducer produced its
	// result only after it had seen the end of its pipe - which the library
	// closes only after every mapper (and the generator) has finished, i.e.
	// after the panic had been handed to the library.
	if len(st.panics) > 0 && len(st.cancels) == 0 && !ctxFired && actual.kind != "panic" {
		if firstPanic < retSeq && (st.redInv == 0 || st.redAll) {
			r.Failf("panic-swallowed", "a callback panicked (%v) and nothing cancelled the call, yet the call ended with %v instead of re-raising the panic", st.panics, actual)
			return
		}
	}
}
