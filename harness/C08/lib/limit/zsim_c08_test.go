//go:build verif

package limit

import (
	"context"
	"fmt"
	"sort"
	"testing"
	"time"

	"github.com/anishathalye/porcupine"
	"github.com/gotid/god/internal/zsim"
	"github.com/gotid/god/internal/zsim/zredis"
	"github.com/gotid/god/lib/logx"
	"github.com/gotid/god/lib/store/redis"
	"github.com/gotid/god/lib/timex"
)

// C08 - rate limiters never admit more than their quota. Real: PeriodLimit,
// TokenLimiter (incl. its in-process rescue limiter and Redis monitor),
// lib/store/redis + its breaker, go-redis, miniredis with its Lua engine,
// x/time/rate. Stub: callers, both clocks, the network (simulated transport).

func init() { logx.Disable() }

func TestZsimC08(t *testing.T) {
	zsim.Main(t, zsim.Harness{
		Property: "C08", Name: "limit",
		Run:      c08Run,
		Post:     c08Post,
		Horizon:  3 * time.Hour,
		MaxSteps: 300000,
		Rule:     "period limiter: 1-4 tasks Take on 1-3 keys in rounds (one take in eight by a caller that has given up: context already cancelled), server clock advanced between rounds (inside / at / beyond the window, Align on/off); token limiter: AllowN(now,n) by 1-3 tasks with caller seconds non-decreasing and server time in lock-step or slower, some callers carrying the previous round's clock reading while the server clock stands still; outage class: network cut at a drawn point (refused dials, reset connections), hammering, heal; histories checked with porcupine against a counter-with-expiry / token-bucket model in server order; non-trivial = a window expired or the quota was exceeded or an outage was injected; distinct = distinct event-log fingerprint",
		Real:     []string{"lib/limit PeriodLimit, TokenLimiter (rescue limiter, Redis monitor)", "lib/store/redis wrapper + breaker", "go-redis client", "miniredis command + Lua engine", "golang.org/x/time/rate"},
		Stub:     []string{"caller tasks", "caller and server clocks", "network (net.Pipe transport with cut/heal)"},
	})
}

type c08Op struct {
	client   int
	in, out  any
	call, rt int64
}

type c08Hist struct {
	name  string
	ops   []c08Op
	model porcupine.Model
}

func c08Post(r *zsim.Run) {
	h, ok := r.Data.(*c08Hist)
	if !ok || h == nil || len(h.ops) == 0 {
		return
	}
	var ops []porcupine.Operation
	for _, o := range h.ops {
		ops = append(ops, porcupine.Operation{ClientId: o.client, Input: o.in, Call: o.call, Output: o.out, Return: o.rt})
	}
	switch porcupine.CheckOperationsTimeout(h.model, ops, 10*time.Second) {
	case porcupine.Illegal:
		s := ""
		for _, o := range h.ops {
			s += fmt.Sprintf("[c%d %v->%v @%d..%d] ", o.client, o.in, o.out, o.call, o.rt)
		}
		r.Failf(h.name+"-not-linearizable", "the %d recorded %s operations cannot be explained by the reference model in any order consistent with real time: %s", len(ops), h.name, s)
	case porcupine.Unknown:
		r.Inconclusive()
	}
}

func c08Run(r *zsim.Run) {
	timex.ZsimReset()
	redis.ZsimResetClients()
	switch r.Ops.Intn(5) {
	case 0, 1:
		c08Period(r)
	case 2, 3:
		c08Token(r)
	default:
		c08Outage(r)
	}
}

func c08Store(r *zsim.Run) (*zredis.Server, *redis.Redis) {
	addr := fmt.Sprintf("sim-redis-%d:6379", r.Seed%1000)
	srv := zredis.Start(r, addr)
	redis.ZsimRegister(addr, srv.Client)
	return srv, redis.New(addr)
}

type c08PeriodIn struct {
	key string
	now int64 // server seconds
}

func c08Period(r *zsim.Run) {
	o := r.Ops
	srv, store := c08Store(r)
	defer srv.Close()
	period := zsim.Pick(o, 5, 1, 2, 60)
	quota := zsim.Pick(o, 3, 1, 2, 5)
	align := o.Intn(3) == 0
	var opts []PeriodOption
	if align {
		opts = append(opts, Align())
	}
	// start at an arbitrary second, and at an arbitrary phase inside it, so that alignment and rounding matter
	srv.Advance(time.Duration(o.Intn(200))*time.Second + time.Duration(zsim.Pick(o, 0, 500, 300, 700, 999))*time.Millisecond)
	pl := NewPeriodLimit(period, quota, store, "pl:", opts...)
	r.Logf("period limiter period=%d quota=%d align=%v", period, quota, align)
	h := &c08Hist{name: "period-limiter"}
	type st struct {
		count    int
		expireAt int64
	}
	h.model = porcupine.Model{
		Partition: func(history []porcupine.Operation) [][]porcupine.Operation {
			by := map[string][]porcupine.Operation{}
			var keys []string
			for _, op := range history {
				k := op.Input.(c08PeriodIn).key
				if _, ok := by[k]; !ok {
					keys = append(keys, k)
				}
				by[k] = append(by[k], op)
			}
			var out [][]porcupine.Operation
			for _, k := range keys {
				out = append(out, by[k])
			}
			return out
		},
		Init: func() interface{} { return st{} },
		Step: func(state, input, output interface{}) (bool, interface{}) {
			s := state.(st)
			in := input.(c08PeriodIn)
			// in.now is in milliseconds; the counter's TTL is a whole number of seconds from the first take
			if s.count > 0 && in.now >= s.expireAt {
				s = st{}
			}
			s.count++
			if s.count == 1 {
				ttl := int64(period)
				if align {
					sec := in.now / 1000
					ttl = int64(period) - sec%int64(period)
				}
				s.expireAt = in.now + ttl*1000
			}
			want := Allowed
			if s.count == quota {
				want = HitQuota
			} else if s.count > quota {
				want = OverQuota
			}
			return output.(int) == want, s
		},
	}
	r.Data = h
	keys := []string{"a", "b", "c"}[:1+o.Intn(3)]
	rounds := 2 + o.Intn(5)
	for round := 0; round < rounds && !r.Failed(); round++ {
		tasks := 1 + o.Intn(4)
		done := 0
		now := time.Now().UnixMilli()
		active := 0
		for t := 0; t < tasks; t++ {
			t := t
			n := 1 + o.Intn(4)
			r.Go(fmt.Sprintf("taker%d", t), func() {
				defer func() { done++ }()
				for i := 0; i < n; i++ {
					key := keys[o.Intn(len(keys))]
					active++
					call := r.Seq()
					var code int
					var err error
					if r.Fault.Intn(8) == 0 {
						// a caller that has given up before the take is issued: the request never reaches the
						// server, it fails with the context's error and uses up nothing
						ctx, cancel := context.WithCancel(context.Background())
						cancel()
						code, err = pl.TakeCtx(ctx, key)
						active--
						r.FaultFired("caller-gave-up")
						r.Logf("t%d take %s with a cancelled context -> %d %v", t, key, code, err)
						if err == nil || code != Unknown {
							r.Failf("period-take-error", "TakeCtx(%s) with a context that is already cancelled returned (%d, %v), want (Unknown, an error)", key, code, err)
							return
						}
						continue
					}
					code, err = pl.Take(key)
					ret := r.Seq()
					active--
					r.Logf("t%d take %s -> %d %v", t, key, code, err)
					if err != nil {
						r.Failf("period-take-error", "Take(%s) failed without any injected fault: %v", key, err)
						return
					}
					if code == OverQuota || code == HitQuota {
						r.NonTrivial()
					}
					h.ops = append(h.ops, c08Op{client: t, in: c08PeriodIn{key, now}, out: code, call: call, rt: ret})
				}
			})
		}
		if !r.WaitFor(time.Minute, 10*time.Millisecond, func() bool { return done == tasks }) {
			r.Failf("takers-blocked", "takers blocked: %v", r.Alive(false))
			return
		}
		adv := zsim.Pick(o, 0, 1, period-1, period, period+1, 3*period)
		if adv > 0 {
			srv.Advance(time.Duration(adv) * time.Second)
			if adv >= period {
				r.NonTrivial()
			}
		}
	}
}

type c08TokenIn struct {
	now int64
	n   int
}

func c08TokenModel(rate, burst int) porcupine.Model {
	type st struct {
		tokens int
		last   int64
		fresh  bool
	}
	return porcupine.Model{
		Init: func() interface{} { return st{tokens: burst, fresh: true} },
		Step: func(state, input, output interface{}) (bool, interface{}) {
			s := state.(st)
			in := input.(c08TokenIn)
			if !s.fresh {
				d := in.now - s.last
				if d < 0 {
					d = 0
				}
				t := int64(s.tokens) + d*int64(rate)
				if t > int64(burst) {
					t = int64(burst)
				}
				s.tokens = int(t)
			}
			s.fresh = false
			if in.now > s.last {
				s.last = in.now
			}
			granted := in.n <= s.tokens
			if granted {
				s.tokens -= in.n
			}
			return output.(bool) == granted, s
		},
	}
}

func c08Token(r *zsim.Run) {
	o := r.Ops
	srv, store := c08Store(r)
	defer srv.Close()
	rate := zsim.Pick(o, 2, 1, 5, 10)
	burst := zsim.Pick(o, 3, 1, 5, 10, 20)
	if burst*2 < rate {
		burst = (rate + 1) / 2
	}
	srv.Advance(time.Duration(1+o.Intn(100)) * time.Second)
	tl := NewTokenLimiter(rate, burst, store, "tl")
	r.Logf("token limiter rate=%d burst=%d", rate, burst)
	h := &c08Hist{name: "token-limiter", model: c08TokenModel(rate, burst)}
	r.Data = h
	callerNow := time.Now()
	prevNow := callerNow
	staleOK := false
	rounds := 2 + o.Intn(6)
	for round := 0; round < rounds && !r.Failed(); round++ {
		tasks := 1 + o.Intn(3)
		done := 0
		for t := 0; t < tasks; t++ {
			t := t
			n := 1 + o.Intn(5)
			now := callerNow
			if staleOK && o.Intn(3) == 0 {
				// a caller that read its clock before the last advance and gets to the limiter only now: the
				// bucket is refilled for the time that has passed, once, whoever reports it. (Only while the
				// server's clock stands still: the keys' expiry, which runs on server time, is a refill of its
				// own that the caller-time model does not describe.)
				now = prevNow
				r.Probe("caller_with_an_older_clock_reading")
			}
			r.Go(fmt.Sprintf("caller%d", t), func() {
				defer func() { done++ }()
				for i := 0; i < n; i++ {
					want := 1 + o.Intn(burst+1)
					call := r.Seq()
					ok := tl.AllowN(now, want)
					ret := r.Seq()
					r.Logf("c%d allowN(%d, %d) -> %v", t, now.Unix(), want, ok)
					if !ok {
						r.NonTrivial()
					}
					h.ops = append(h.ops, c08Op{client: t, in: c08TokenIn{now.Unix(), want}, out: ok, call: call, rt: ret})
				}
			})
		}
		if !r.WaitFor(time.Minute, 10*time.Millisecond, func() bool { return done == tasks }) {
			r.Failf("callers-blocked", "callers blocked: %v", r.Alive(false))
			return
		}
		if srv.Count("EVALSHA")+srv.Count("EVAL") == 0 {
			r.Failf("redis-not-used", "the token limiter did not reach Redis although it is healthy")
			return
		}
		// caller time advances; server time advances by the same amount or less
		adv := zsim.Pick(o, 0, 1, 1, 2, 5, 30)
		prevNow = callerNow
		callerNow = callerNow.Add(time.Duration(adv) * time.Second)
		sadv := adv
		if adv > 0 && o.Intn(3) == 0 {
			sadv = o.Intn(adv + 1)
		}
		if adv > 0 && adv <= 2 && o.Intn(3) == 0 {
			sadv = 0
		}
		staleOK = adv > 0 && sadv == 0
		if sadv > 0 {
			srv.Advance(time.Duration(sadv) * time.Second)
		}
	}
}

// Outage: Redis becomes unreachable, the limiter keeps limiting in process, then returns to Redis.
func c08Outage(r *zsim.Run) {
	o, f := r.Ops, r.Fault
	srv, store := c08Store(r)
	defer srv.Close()
	rate := zsim.Pick(o, 2, 1, 5)
	burst := zsim.Pick(o, 3, 2, 5, 10)
	srv.Advance(time.Duration(1+o.Intn(50)) * time.Second)
	tl := NewTokenLimiter(rate, burst, store, "tlo")
	// some runs hold tasks at scheduling points (pre-emption), which opens the windows between the monitor's steps
	r.StallUnit = 10 * time.Millisecond
	switch f.Intn(3) {
	case 1:
		r.StallOdds = 20
	case 2:
		r.StallSites = 4
	}
	r.Logf("outage: token limiter rate=%d burst=%d stalls=%d/%d", rate, burst, r.StallOdds, r.StallSites)
	r.NonTrivial()
	// phase 1: healthy traffic
	for i := 0; i < 1+o.Intn(4); i++ {
		tl.AllowN(time.Now(), 1)
		srv.Advance(time.Duration(o.Intn(1500)) * time.Millisecond)
	}
	evalsBefore := srv.Count("EVALSHA") + srv.Count("EVAL")
	if evalsBefore == 0 {
		r.Failf("redis-not-used", "the token limiter did not reach Redis although it is healthy")
		return
	}
	// phase 2: Redis fails (unreachable, or reachable but the script fails while PING still answers); hammer
	scriptOnly := f.Intn(3) == 2
	if scriptOnly {
		srv.FailReply = func(cmd string, args []string) string {
			if cmd == "EVALSHA" || cmd == "EVAL" {
				r.FaultFired("redis-script-error")
				return "ERR injected script failure"
			}
			return ""
		}
	} else {
		srv.Cut()
		r.FaultFired("redis-cut")
	}
	if f.Intn(2) == 1 {
		srv.Latency = 2 * time.Millisecond
	}
	start := time.Now()
	var admitted []time.Time // one entry per admitted token
	offered := 0
	dur := time.Duration(2+o.Intn(8)) * time.Second
	hammer := func() {
		for time.Since(start) < dur && !r.Failed() {
			for k := 0; k < 1+o.Intn(burst+2); k++ {
				n := 1
				if o.Intn(3) == 0 {
					n = 1 + o.Intn(burst)
				}
				offered += n
				if tl.AllowN(time.Now(), n) {
					for j := 0; j < n; j++ {
						admitted = append(admitted, time.Now())
					}
				}
			}
			srv.Advance(time.Duration(50+o.Intn(400)) * time.Millisecond)
		}
	}
	// further callers hammer at the same time (they meet the monitor's hand-over points)
	extra, extraDone := o.Intn(3), 0
	for e := 0; e < extra; e++ {
		r.Go(fmt.Sprintf("hammer%d", e), func() {
			defer func() { extraDone++ }()
			for time.Since(start) < dur && !r.Failed() {
				n := 1 + o.Intn(2)
				offered += n
				if tl.AllowN(time.Now(), n) {
					for j := 0; j < n; j++ {
						admitted = append(admitted, time.Now())
					}
				}
				zsim.Sleep(time.Duration(10+o.Intn(150)) * time.Millisecond)
			}
		})
	}
	hammer()
	if !r.WaitFor(time.Minute, 10*time.Millisecond, func() bool { return extraDone == extra }) {
		r.Failf("callers-blocked", "callers blocked: %v", r.Alive(false))
		return
	}
	sort.Slice(admitted, func(i, j int) bool { return admitted[i].Before(admitted[j]) })
	r.Logf("outage %v: offered %d admitted %d", time.Since(start), offered, len(admitted))
	// over every interval [i,j] of admissions: count <= burst + rate*seconds (whole caller seconds, +1 for rounding of the boundary seconds)
	// (with stalled tasks the caller clocks reach the in-process bucket out of order - a caller reads its clock and
	// is then held for up to 400 ms before it gets to the bucket - which is outside "advances of caller time"; the
	// admission bound is only asserted for runs without stalls)
	for i := range admitted {
		if r.StallOdds > 0 || r.StallSites > 0 {
			break
		}
		for j := i; j < len(admitted); j++ {
			secs := admitted[j].Unix() - admitted[i].Unix() + 1
			if n := j - i + 1; int64(n) > int64(burst)+int64(rate)*secs {
				r.Failf("outage-admits-too-many", "while Redis was unreachable %d tokens were granted between %v and %v (%d whole seconds): more than burst %d + rate %d x seconds", n, admitted[i].Sub(start), admitted[j].Sub(start), secs, burst, rate)
				return
			}
		}
	}
	if offered > 3*(burst+rate*int(dur/time.Second+2)) && len(admitted) >= offered {
		r.Failf("outage-stops-limiting", "while Redis was unreachable all %d offered requests were admitted", offered)
		return
	}
	// phase 3: heal; the limiter must return to Redis
	srv.Heal()
	srv.FailReply = nil
	srv.Latency = 0
	evalsAtHeal := srv.Count("EVALSHA") + srv.Count("EVAL")
	back := false
	healAt := time.Now()
	for time.Since(healAt) < 60*time.Second {
		tl.AllowN(time.Now(), 1)
		if srv.Count("EVALSHA")+srv.Count("EVAL") > evalsAtHeal {
			back = true
			break
		}
		srv.Advance(500 * time.Millisecond)
	}
	r.Logf("back on redis=%v after %v", back, time.Since(healAt))
	if !back {
		r.Failf("never-returns-to-redis", "60 virtual seconds after Redis answered again the token limiter still does not use it (pings seen: %d)", srv.Count("PING"))
	}
}
