//go:build verif

package collection

import (
	"errors"
	"fmt"
	"testing"
	"time"

	"github.com/gotid/god/internal/zsim"
	"github.com/gotid/god/lib/logx"
	"github.com/gotid/god/lib/timex"
)

// C17 - in-memory cache: bounded, LRU-ordered, fresh, single-flight. Real:
// collection.Cache with its 300-slot timing wheel on the simulated clock,
// keyLru, syncx.SingleFlight, mathx.Unstable (random source steered per
// run). Stub: fetch functions.

func init() { logx.Disable() }

func TestZsimC17(t *testing.T) {
	zsim.Main(t, zsim.Harness{
		Property: "C17", Name: "cache",
		Run:      c17Run,
		Horizon:  6 * time.Hour,
		MaxSteps: 400000,
		Rule:     "limit in {none,1,2,3}, expiry in {2s,10s,299s,300s,301s,450s,700s}, <=5 keys; histories of Set/SetWithExpire/Get/Del/Take at mid-tick instants separated by drawn advances (1 tick .. beyond expiry, re-sets at every phase of the 300-slot wheel); expiry jitter source steered min/max/seeded per run; or 2-5 concurrent Take callers with sleeping fetches; non-trivial = an entry expired, was evicted, was re-set while pending, or Take callers overlapped; distinct = distinct event-log fingerprint",
		Real:     []string{"lib/collection.Cache", "lib/collection.TimingWheel (300 slots, real ticker on the simulated clock)", "keyLru", "lib/syncx.SingleFlight", "lib/mathx.Unstable"},
		Stub:     []string{"fetch functions", "client tasks"},
	})
}

type c17Entry struct {
	val    int
	setAt  time.Duration
	expire time.Duration
}

func c17Run(r *zsim.Run) {
	timex.ZsimReset()
	r.RandMode = r.Ops.Intn(3)
	if r.Ops.Intn(5) == 4 {
		c17Concurrent(r)
		return
	}
	c17Sequential(r)
}

func c17Sequential(r *zsim.Run) {
	o := r.Ops
	limit := zsim.Pick(o, 0, 1, 2, 3)
	expire := zsim.Pick(o, 10*time.Second, 2*time.Second, 299*time.Second, 300*time.Second, 301*time.Second, 450*time.Second, 700*time.Second)
	var opts []CacheOption
	if limit > 0 {
		opts = append(opts, WithLimit(limit))
	}
	c, err := NewCache(expire, opts...)
	if err != nil {
		r.Failf("constructor", "%v", err)
		return
	}
	defer c.timingWheel.Stop()
	r.Logf("cache limit=%d expire=%v randmode=%d", limit, expire, r.RandMode)
	keys := []string{"a", "b", "c", "d", "e"}
	model := map[string]*c17Entry{}
	var lru []string // most recent first
	touch := func(k string) {
		for i, x := range lru {
			if x == k {
				lru = append(lru[:i], lru[i+1:]...)
				break
			}
		}
		lru = append([]string{k}, lru...)
	}
	drop := func(k string) {
		delete(model, k)
		for i, x := range lru {
			if x == k {
				lru = append(lru[:i], lru[i+1:]...)
				break
			}
		}
	}
	mustUntil := func(e *c17Entry) time.Duration { return e.setAt + e.expire*95/100 - 2*time.Second }
	mayUntil := func(e *c17Entry) time.Duration { return e.setAt + e.expire*105/100 + 2*time.Second }
	// resolve keys whose presence the statement leaves open (inside their "may" window) by looking at the map
	resolve := func() bool {
		now := r.Now()
		for k, e := range model {
			c.lock.Lock()
			_, present := c.data[k]
			c.lock.Unlock()
			switch {
			case present && now > mayUntil(e):
				r.Failf("entry-outlives-expiry", "key %s set at %v with expiry %v is still cached at %v (later than 105%% of the expiry plus two ticks)", k, e.setAt, e.expire, now)
				return false
			case !present && now < mustUntil(e):
				r.Failf("entry-dropped-early", "key %s set at %v with expiry %v is gone at %v (before 95%% of the expiry)", k, e.setAt, e.expire, now)
				return false
			case !present:
				r.NonTrivial()
				r.Probe("expired")
				drop(k)
			}
		}
		c.lock.Lock()
		n := len(c.data)
		var stray string
		for k := range c.data {
			if model[k] == nil {
				stray = k
			}
		}
		c.lock.Unlock()
		if stray != "" {
			r.Failf("stray-entry", "key %s is cached although it was deleted, evicted or never set", stray)
			return false
		}
		if limit > 0 && n > limit {
			r.Failf("limit-exceeded", "the cache holds %d entries with a limit of %d", n, limit)
			return false
		}
		return true
	}
	insert := func(k string, v int, e time.Duration) {
		if _, ok := model[k]; ok {
			r.NonTrivial()
			r.Probe("reset_pending")
		} else if limit > 0 && len(model) >= limit {
			victim := lru[len(lru)-1]
			r.NonTrivial()
			r.Probe("evicted")
			r.Logf("model evicts %s", victim)
			drop(victim)
		}
		model[k] = &c17Entry{v, r.Now(), e}
		touch(k)
	}
	// the phase of the operations inside the wheel's one-second tick: mostly mid-tick; some runs sit exactly on the
	// tick, where an operation races the expiry callbacks of that very tick
	phase := zsim.Pick(o, 500*time.Millisecond, 500*time.Millisecond, 0, time.Millisecond, 999*time.Millisecond)
	if phase > 0 {
		zsim.Sleep(phase)
	} else {
		r.Probe("operations_on_the_tick")
	}
	nops := 4 + o.Intn(16)
	if r.Tier == "thorough" && o.Intn(4) == 0 {
		nops = 40 + o.Intn(80) // the thorough tier also draws longer histories
	}
	eager := o.Intn(3) == 0
	if phase == 0 {
		// on the tick the interesting orders are the ones in which an operation comes between the wheel firing a
		// timer and the expiry callback running: most of these runs do not wait
		eager = o.Intn(4) != 0
	}
	nextVal := 0
	forced := ""
	for i := 0; i < nops && !r.Failed(); i++ {
		if !resolve() {
			return
		}
		if limit > 0 {
			// with a limit the victim of an eviction depends on whether an entry that is expiring in this very
			// instant is still counted: the model cannot know, so such instants are let settle first (runs
			// without a limit keep racing their operations against the expiry callbacks)
			for _, kk := range keys {
				if e := model[kk]; e != nil && r.Now() >= mustUntil(e) && r.Now() <= mayUntil(e) {
					r.Quiesce()
					if !resolve() {
						return
					}
					break
				}
			}
		}
		k := keys[o.Intn(len(keys))]
		op := o.Intn(11)
		if forced != "" {
			// the previous step went to a tick on which this key may expire: the operation goes to that key and is
			// more often a replacement
			k, forced = forced, ""
			op = zsim.Pick(o, 9, 9, 9, 0, 2, 3, 5, 6)
		} else if o.Intn(2) == 0 {
			// half of the time the operation goes to a key that may be expiring right now, if there is one
			var due []string
			for _, kk := range keys {
				if e := model[kk]; e != nil && r.Now() >= mustUntil(e) && r.Now() <= mayUntil(e) {
					due = append(due, kk)
				}
			}
			if len(due) > 0 {
				k = due[o.Intn(len(due))]
				r.Probe("operation_on_a_key_that_may_be_expiring")
			}
		}
		switch op {
		case 10: // go to a tick on which a pending entry may expire; the next operation goes to its key without waiting
			var pend []string
			for _, kk := range keys {
				if e := model[kk]; e != nil && mayUntil(e) > r.Now() {
					pend = append(pend, kk)
				}
			}
			if len(pend) == 0 {
				break
			}
			kk := pend[o.Intn(len(pend))]
			e := model[kk]
			at := (e.setAt + e.expire*time.Duration(95+o.Intn(11))/100).Truncate(time.Second) + time.Duration(o.Intn(2))*time.Second
			if at <= r.Now() {
				break
			}
			zsim.Sleep(at - r.Now())
			r.Logf("advanced to %v, a tick on which %s may expire", at, kk)
			r.Probe("advanced_to_a_possible_expiry_tick")
			forced = kk
			continue
		case 9: // replace: Del and Set of the same key back to back (a pending expiry of the old entry must not touch the new one)
			nextVal++
			c.Del(k)
			drop(k)
			c.Set(k, nextVal)
			r.Logf("del+set %s=%d", k, nextVal)
			insert(k, nextVal, expire)
		case 0, 1: // Set
			nextVal++
			c.Set(k, nextVal)
			r.Logf("set %s=%d", k, nextVal)
			insert(k, nextVal, expire)
		case 2: // SetWithExpire
			nextVal++
			e := zsim.Pick(o, 2*time.Second, 10*time.Second, 40*time.Second, 301*time.Second, 640*time.Second)
			c.SetWithExpire(k, nextVal, e)
			r.Logf("setwithexpire %s=%d %v", k, nextVal, e)
			insert(k, nextVal, e)
		case 3, 4: // Get
			v, ok := c.Get(k)
			r.Logf("get %s -> %v %v", k, v, ok)
			e := model[k]
			if e != nil && !ok && r.Now() >= mustUntil(e) {
				// it expired between the look at the map above and this Get (operations on the tick race the
				// expiry callbacks of that tick): inside its window, so a legitimate expiry
				r.NonTrivial()
				r.Probe("expired_between_look_and_get")
				drop(k)
				e = nil
			}
			if (e != nil) != ok || ok && v != any(e.val) {
				want := "absent"
				if e != nil {
					want = fmt.Sprint(e.val)
				}
				r.Failf("wrong-get", "Get(%s) returned (%v,%v), the model says %s", k, v, ok, want)
				return
			}
			if ok {
				touch(k)
			}
		case 5: // Del
			c.Del(k)
			r.Logf("del %s", k)
			drop(k)
		case 6: // Take
			nextVal++
			fetched := false
			fail := o.Intn(4) == 3
			v, err := c.Take(k, func() (any, error) {
				fetched = true
				if fail {
					return nil, errors.New("fetch-failed")
				}
				return nextVal, nil
			})
			r.Logf("take %s -> %v %v fetched=%v", k, v, err, fetched)
			e := model[k]
			if e != nil && fetched && r.Now() >= mustUntil(e) {
				r.NonTrivial()
				r.Probe("expired_between_look_and_take")
				drop(k)
				e = nil
			}
			switch {
			case e != nil:
				if fetched || err != nil || v != any(e.val) {
					r.Failf("wrong-take", "Take(%s) on a cached key returned (%v,%v) fetched=%v, the cached value is %d", k, v, err, fetched, e.val)
					return
				}
				touch(k)
			case !fetched:
				r.Failf("wrong-take", "Take(%s) on an absent key did not run the fetch function (returned %v,%v)", k, v, err)
				return
			case fail:
				if err == nil {
					r.Failf("wrong-take", "Take(%s): the fetch failed but Take returned (%v,nil)", k, v)
					return
				}
			default:
				if err != nil || v != any(nextVal) {
					r.Failf("wrong-take", "Take(%s): the fetch returned %d but Take returned (%v,%v)", k, nextVal, v, err)
					return
				}
				insert(k, nextVal, expire)
			}
		case 7: // a few ticks
			zsim.Sleep(time.Duration(1+o.Intn(5)) * time.Second)
		case 8: // a long advance, relative to the expiry
			d := zsim.Pick(o, expire/2, expire*9/10, expire, expire*11/10, expire*2, 298*time.Second, 302*time.Second)
			d = d.Truncate(time.Second)
			if d < time.Second {
				d = time.Second
			}
			zsim.Sleep(d)
			r.Logf("advanced %v", d)
		}
		// some runs do not wait for the timing wheel (and whatever else works in the background) to digest an
		// operation before the next one is issued
		if !eager || o.Intn(2) == 0 {
			r.Quiesce()
		}
	}
	if r.Failed() {
		return
	}
	// finally run past every expiry: everything must be gone
	var last time.Duration
	for _, e := range model {
		if m := mayUntil(e); m > last {
			last = m
		}
	}
	if last > r.Now() {
		zsim.Sleep((last - r.Now()).Truncate(time.Second) + 2*time.Second)
	}
	r.Quiesce()
	resolve()
	if !r.Failed() && len(model) != 0 {
		r.Failf("entry-outlives-expiry", "entries %v are still cached after every expiry has passed", model)
	}
}

func c17Concurrent(r *zsim.Run) {
	o := r.Ops
	c, err := NewCache(time.Minute)
	if err != nil {
		r.Failf("constructor", "%v", err)
		return
	}
	defer c.timingWheel.Stop()
	n := 2 + o.Intn(4)
	inflight := map[string]int{}
	fetches := map[string]int{}
	type res struct {
		key      string
		val      any
		err      error
		inv, ret int64
	}
	var results []*res
	type ex struct {
		owner    *res
		key      string
		beg, end int64
		val      int
		fail     bool
	}
	var execs []*ex
	done := 0
	active := 0
	nextVal := 0
	r.Logf("concurrent take n=%d", n)
	for i := 0; i < n; i++ {
		i := i
		r.Go(fmt.Sprintf("taker%d", i), func() {
			defer func() { done++ }()
			for j := 0; j < 1+o.Intn(2); j++ {
				if o.Intn(3) == 0 {
					zsim.Sleep(time.Duration(o.Intn(30)) * time.Millisecond)
				}
				key := zsim.Pick(o, "k", "k", "j")
				rs := &res{key: key, inv: r.Seq()}
				active++
				if active > 1 {
					r.NonTrivial()
				}
				rs.val, rs.err = c.Take(key, func() (any, error) {
					inflight[key]++
					fetches[key]++
					if inflight[key] > 1 {
						r.Failf("concurrent-fetches", "two fetches for key %s run at the same time", key)
					}
					nextVal++
					e := &ex{owner: rs, key: key, beg: r.Seq(), val: nextVal, fail: o.Intn(4) == 3}
					execs = append(execs, e)
					zsim.Sleep(time.Duration(o.Intn(20)) * time.Millisecond)
					e.end = r.Seq()
					inflight[key]--
					if e.fail {
						return nil, fmt.Errorf("fetch-failed-%d", e.val)
					}
					return e.val, nil
				})
				active--
				rs.ret = r.Seq()
				results = append(results, rs)
				r.Logf("taker%d take %s -> %v %v", i, key, rs.val, rs.err)
			}
		})
	}
	if !r.WaitFor(10*time.Minute, 10*time.Millisecond, func() bool { return done == n }) {
		r.Failf("takers-blocked", "Take callers are blocked: %v", r.Alive(false))
		return
	}
	if r.Failed() {
		return
	}
	// every result is the value of a successful fetch of that key that started before the call returned
	// (or the error of a failed fetch overlapping the call); after a successful fetch no later fetch happens
	succeeded := map[string]*ex{}
	for _, e := range execs {
		if s := succeeded[e.key]; s != nil && e.beg > s.end {
			r.Failf("fetch-after-cached", "key %s was fetched again (seq %d) after a successful fetch had been cached (seq %d) within the expiry", e.key, e.beg, s.end)
			return
		}
		if !e.fail && succeeded[e.key] == nil {
			succeeded[e.key] = e
		}
	}
	for _, rs := range results {
		ok := false
		for _, e := range execs {
			if e.key != rs.key || e.beg > rs.ret {
				continue
			}
			// an error is shared only with calls that overlap the call that ran the fetch
			if e.fail && rs.err != nil && rs.err.Error() == fmt.Sprintf("fetch-failed-%d", e.val) && e.owner.ret > rs.inv {
				ok = true
			}
			if !e.fail && rs.err == nil && rs.val == any(e.val) {
				ok = true
			}
		}
		if !ok {
			r.Failf("take-foreign-result", "Take(%s) [%d..%d] returned (%v,%v), which is not the result of a fetch it could have shared", rs.key, rs.inv, rs.ret, rs.val, rs.err)
			return
		}
	}
}
