//go:build verif

package discov

import (
	"fmt"
	"google.golang.org/grpc/connectivity"
	"sort"
	"strings"
	"testing"
	"time"

	"github.com/gotid/god/internal/zsim"
	"github.com/gotid/god/lib/discov/internal"
	"github.com/gotid/god/lib/logx"
	"github.com/gotid/god/lib/timex"
)

// C15 - service discovery view converges to the registry's live key set.
// Real: internal.Registry/cluster (load, handleChanges, watch, watchStream,
// handleWatchEvents, reload, monitor, getCurrent), discov.Subscriber and its
// container, threading.RoutineGroup, syncx.ResourceManager. Stub: the etcd
// client (scripted, over a revisioned model store); reconnects call reload
// exactly as the connection-state listener does.

func init() { logx.Disable() }

func TestZsimC15(t *testing.T) {
	zsim.Main(t, zsim.Harness{
		Property: "C15", Name: "discov",
		Run:      c15Run,
		Horizon:  2 * time.Hour,
		MaxSteps: 200000,
		Rule:     "histories of key puts/deletes under a prefix (a key keeps one value for life, values may be shared), each delivered by the watch (single or batched) or swallowed by a disconnection and only visible in the next reload snapshot; broken watches (closed channel, cancelled, compacted) that are re-established with re-delivery; Get errors during load; 1-4 subscribers (normal/exclusive) attached at drawn times, in a third of the runs 2-3 of them at once while the initial Get is in flight; in half of the runs the registry dials through a seam at NewClient (1-2 failed dials first, callers retry) and the real stateWatcher follows a scripted connection (Ready -> TransientFailure -> Ready triggers the real reload), in the others the client is pre-registered and reload is called directly; changes also fall into the gap between a broken watch and its re-establishment; non-trivial = at least one disconnection+reload or broken watch happened; distinct = distinct event-log fingerprint",
		Real:     []string{"lib/discov/internal Registry + cluster + stateWatcher (instrumented)", "lib/discov Subscriber + container", "lib/threading.RoutineGroup", "lib/syncx.ResourceManager"},
		Stub:     []string{"EtcdClient (scripted model store with revisions, watch delivery, faults)", "grpc connection state (scripted Ready/TransientFailure sequence watched by the real stateWatcher; in half of the runs reload is invoked directly)", "etcd dialling (NewClient seam returns the stub or a dial error)"},
	})
}

type c15Sub struct {
	s         *Subscriber
	prefix    string
	exclusive bool
	changes   int
	lastSeen  []string // the value list the change listener read the last time it ran
}

func c15Run(r *zsim.Run) {
	timex.ZsimReset()
	internal.ZsimReset()
	o, f := r.Ops, r.Fault
	etcd := internal.NewZsimEtcd(r)
	endpoints := []string{"etcd-1:2379"}
	// half of the runs go through the registry's own dialling and connection-state watcher (seams at
	// NewClient and at the watched connection), the others pre-register the client and call reload directly
	seamed := o.Intn(2) == 0
	dialFaults, subErrs := 0, 0
	if seamed {
		etcd.ZsimUseSeams()
		if f.Intn(3) == 0 {
			dialFaults = 1 + f.Intn(2) // etcd is not reachable when the first subscribers start
			etcd.DialFaults = dialFaults
		}
	} else {
		etcd.ZsimRegister(endpoints)
	}
	prefixes := []string{"svc.rpc", "svc.aux"}[:1+o.Intn(2)]
	// same-value keys only when no exclusive subscriber is used (their order of arrival from a snapshot is not defined)
	useExclusive := o.Intn(3) == 0
	var subs []*c15Sub
	live := map[string]string{} // model: key -> value
	dead := map[string]string{} // keys that were deleted, with the value they carried
	nextKey := 0
	// exclusive mode: value -> most recent key that published it (by delivered event order)
	lastKey := map[string]string{}
	expected := func(prefix string, exclusive bool) []string {
		set := map[string]bool{}
		for k, v := range live {
			if !strings.HasPrefix(k, prefix+"/") {
				continue
			}
			if exclusive && lastKey[v] != k {
				continue
			}
			set[v] = true
		}
		var out []string
		for v := range set {
			out = append(out, v)
		}
		sort.Strings(out)
		return out
	}
	check := func(when string) bool {
		for i, s := range subs {
			got := append([]string(nil), s.s.Values()...)
			sort.Strings(got)
			want := expected(s.prefix, s.exclusive)
			if strings.Join(got, ",") != strings.Join(want, ",") {
				r.Failf("view-diverged", "%s: subscriber %d (exclusive=%v) has values %v but the live keys under the prefix carry %v (keys %v)", when, i, s.exclusive, got, want, live)
				return false
			}
			if s.changes > 0 {
				seen := append([]string(nil), s.lastSeen...)
				sort.Strings(seen)
				if strings.Join(seen, ",") != strings.Join(got, ",") {
					r.Failf("listener-not-called", "%s: the list subscriber %d's change listener read when it last ran is %v, the subscriber now holds %v: an update was applied without the listener being run afterwards", when, i, seen, got)
					return false
				}
			}
		}
		return true
	}
	together := 0 // > 0: several subscribers attach at once: deliveries of one load are still in flight when another returns
	// settle: everything delivered so far has been processed, slow change listeners included
	inListener := 0 // change listeners currently running (some are slow)
	settle := func() {
		for i := 0; i < 1000; i++ {
			r.Quiesce()
			if inListener == 0 {
				zsim.Sleep(4 * time.Millisecond) // longer than a slow listener takes: the next one, if any, has started
				r.Quiesce()
				if inListener == 0 {
					return
				}
			}
			zsim.Sleep(5 * time.Millisecond)
		}
	}
	attach := func() bool {
		ex := useExclusive && o.Intn(2) == 0
		var opts []SubOption
		if ex {
			opts = append(opts, Exclusive())
		}
		prefix := prefixes[o.Intn(len(prefixes))]
		var s *Subscriber
		for {
			var err error
			s, err = NewSubscriber(endpoints, prefix, opts...)
			if err == nil {
				break
			}
			// concurrent callers share one dial attempt, so a failed dial may fail several of them
			subErrs++
			if dialFaults == 0 || subErrs > 4*dialFaults {
				r.Failf("subscribe-error", "NewSubscriber: %v", err)
				return false
			}
			// the caller retries once etcd can be reached
			r.Logf("NewSubscriber failed (%v), retrying", err)
			r.Probe("subscribe_retried_after_dial_error")
			zsim.Sleep(time.Second)
		}
		cs := &c15Sub{s: s, prefix: prefix, exclusive: ex}
		slow := o.Intn(2) == 0
		slowFor := time.Duration(zsim.Pick(o, 1, 3)) * time.Millisecond
		s.AddListener(func() {
			// a consumer (a load balancer) re-reads the list whenever it is told of a change
			cs.changes++
			inListener++
			// it reads the list and then works on it for a while: whatever changes meanwhile must be announced again
			cs.lastSeen = append([]string(nil), s.Values()...)
			if slow {
				zsim.Sleep(slowFor)
			}
			inListener--
		})
		subs = append(subs, cs)
		r.Logf("subscriber %d attached to %s exclusive=%v", len(subs)-1, prefix, ex)
		// a subscriber that joins sees the current set at once
		if etcd.Connected && together == 0 {
			got := append([]string(nil), s.Values()...)
			sort.Strings(got)
			want := expected(prefix, ex)
			if strings.Join(got, ",") != strings.Join(want, ",") {
				r.Failf("late-subscriber-stale", "a subscriber attached to an already watched cluster sees %v right after NewSubscriber returned, the live set is %v", got, want)
				return false
			}
		}
		return true
	}
	mutate := func() {
		del := len(live) > 0 && o.Intn(3) == 0
		if del {
			var keys []string
			for k := range live {
				keys = append(keys, k)
			}
			sort.Strings(keys)
			k := keys[o.Intn(len(keys))]
			etcd.Apply(true, k, "")
			dead[k] = live[k]
			delete(live, k)
			r.Logf("delete %s", k)
			return
		}
		if len(dead) > 0 && o.Intn(4) == 0 {
			// a publisher that lost its lease registers again: same key, same value, a new life
			ks := make([]string, 0, len(dead))
			for k := range dead {
				ks = append(ks, k)
			}
			sort.Strings(ks)
			k := ks[o.Intn(len(ks))]
			v := dead[k]
			delete(dead, k)
			if o.Intn(2) == 0 {
				// ... or the same key with another value: a publisher with a fixed id that came back on another address
				nextKey++
				v = fmt.Sprintf("10.0.1.%d:80", nextKey)
				r.Probe("key_registered_again_with_another_value")
			}
			etcd.Apply(false, k, v)
			live[k] = v
			lastKey[v] = k
			r.Logf("put %s=%s (again)", k, v)
			r.Probe("key_registered_again")
			return
		}
		nextKey++
		k := fmt.Sprintf("%s/%d", prefixes[o.Intn(len(prefixes))], 1000+nextKey)
		v := fmt.Sprintf("10.0.0.%d:80", nextKey)
		if !useExclusive && o.Intn(4) == 0 && nextKey > 1 {
			v = fmt.Sprintf("10.0.0.%d:80", 1+o.Intn(nextKey-1)) // shared value
		}
		etcd.Apply(false, k, v)
		live[k] = v
		lastKey[v] = k
		r.Logf("put %s=%s", k, v)
	}
	// initial content
	for i := 0; i < o.Intn(3); i++ {
		mutate()
	}
	if o.Intn(3) == 0 {
		// the first subscribers arrive together while the initial Get is still on its way
		etcd.GetDelay = 50 * time.Millisecond
		together++
		n, done := 2+o.Intn(2), 0
		for i := 0; i < n; i++ {
			r.Go(fmt.Sprintf("attach%d", i), func() {
				attach()
				done++
			})
		}
		if !r.WaitFor(time.Minute, 10*time.Millisecond, func() bool { return done == n }) {
			r.Failf("subscribe-blocked", "concurrent NewSubscriber calls did not return: %v", r.Alive(false))
			return
		}
		etcd.GetDelay = 0
		together--
		r.Probe("concurrent_first_subscribers")
		if r.Failed() {
			return
		}
	} else if !attach() {
		return
	}
	settle()
	if !check("after the first subscriber attached") {
		return
	}
	nsteps := 4 + o.Intn(14)
	if r.Tier == "thorough" && o.Intn(4) == 0 {
		nsteps = 30 + o.Intn(50) // the thorough tier also draws longer histories
	}
	for i := 0; i < nsteps && !r.Failed(); i++ {
		before := make([]int, len(subs))
		for j, s := range subs {
			before[j] = s.changes
		}
		prevOf := map[string]string{}
		for _, p := range prefixes {
			prevOf[p] = strings.Join(expected(p, false), ",")
		}
		switch {
		case f.Intn(6) == 5 && etcd.Connected: // connection lost: changes happen unseen, then reconnect + reload
			etcd.Disconnect()
			r.FaultFired("disconnect")
			n := o.Intn(4)
			for j := 0; j < n; j++ {
				mutate()
			}
			if f.Intn(3) == 2 && len(subs) < 3 {
				// a subscriber attaches while the watch is down
				if !attach() {
					return
				}
			}
			if f.Intn(4) == 3 {
				etcd.GetFaults = 1 + f.Intn(5) // up to five failed snapshot reads: the retries outlast one request timeout
			}
			if seamed {
				etcd.Conn.Set(connectivity.TransientFailure)
				r.Quiesce() // the state watcher has seen the failure
			}
			racing := f.Intn(3) == 2
			if racing {
				// the reconnect arrives while the last watch response (two or more events) is still being worked on
				etcd.Connected = true
				for j := 0; j < 2+o.Intn(2); j++ {
					mutate()
				}
				etcd.Deliver(true)
				etcd.Disconnect()
				r.Probe("reconnect_while_events_in_progress")
			}
			twice := !racing && f.Intn(4) == 3
			if twice {
				etcd.GetDelay = 30 * time.Millisecond // the second reconnect arrives while the first reload is still loading
			}
			etcd.Connected = true
			r.Logf("disconnected, %d unseen changes, reconnected -> reload", n)
			// a subscriber joins while the reload is telling the others what changed; in some runs every snapshot
			// read takes a few milliseconds and the newcomer arrives just after the reload's read came back, so
			// that its own read is answered when the reload has finished with the listeners
			joinDuring := func() bool {
				if f.Intn(3) != 0 || len(subs) >= 4 {
					return true
				}
				if !twice && f.Intn(2) == 0 {
					etcd.GetDelay = time.Duration(zsim.Pick(o, 3, 5, 8)) * time.Millisecond
					zsim.Sleep(etcd.GetDelay + time.Duration(o.Intn(3))*time.Millisecond)
					r.Probe("join_during_reload_slow_reads")
				}
				together++
				ok := attach()
				together--
				r.Probe("join_during_reload")
				return ok
			}
			// in some runs a subscriber is attaching (its monitor call is under way) when the reconnect arrives
			attachDone, early := true, false
			if f.Intn(4) == 0 && len(subs) < 4 {
				attachDone, early = false, true
				together++
				// its snapshot read takes a few milliseconds; the reconnect arrives in the instant in which that read
				// comes back, so that the rest of the monitor call and the start of the reload are interleaved
				if !twice {
					etcd.GetDelay = time.Duration(zsim.Pick(o, 2, 5)) * time.Millisecond
				}
				d := etcd.GetDelay
				r.Go("early-attach", func() { attach(); attachDone = true })
				r.Probe("attach_races_reload")
				zsim.Sleep(d)
			}
			if seamed {
				gets := etcd.Gets
				etcd.Conn.Set(connectivity.Ready)
				if !twice && !joinDuring() {
					return
				}
				if twice {
					zsim.Sleep(10 * time.Millisecond)
					etcd.Conn.Set(connectivity.TransientFailure)
					zsim.Sleep(time.Millisecond)
					etcd.Conn.Set(connectivity.Ready)
					r.Probe("two_quick_reconnects")
				}
				if !r.WaitFor(time.Minute, 100*time.Millisecond, func() bool { return etcd.Gets > gets }) {
					r.Failf("no-reload-after-reconnect", "the connection became ready again but the cluster did not reload its keys: %v", r.Alive(true))
					return
				}
				r.Probe("reload_via_state_watcher")
			} else {
				done, want := 0, 1
				r.Go("reload", func() { etcd.ZsimReload(endpoints); done++ })
				if !joinDuring() {
					return
				}
				if twice {
					want = 2
					zsim.Sleep(10 * time.Millisecond)
					r.Go("reload2", func() { etcd.ZsimReload(endpoints); done++ })
					r.Probe("two_quick_reconnects")
				}
				if !r.WaitFor(time.Minute, 100*time.Millisecond, func() bool { return done == want }) {
					r.Failf("reload-blocked", "a reload after a reconnect did not finish: %v", r.Alive(true))
					return
				}
			}
			if !r.WaitFor(time.Minute, 100*time.Millisecond, func() bool { return attachDone }) {
				r.Failf("subscribe-blocked", "a NewSubscriber call racing a reload did not return: %v", r.Alive(false))
				return
			}
			if early {
				together--
			}
			if r.Failed() {
				return
			}
			etcd.GetDelay = 0
			// the snapshot read is retried once a second until it succeeds; then a (second) reload may still be loading
			r.WaitFor(30*time.Second, 100*time.Millisecond, func() bool { return etcd.GetFaults == 0 })
			zsim.Sleep(3 * time.Second)
		case f.Intn(7) == 6: // a watch breaks and is re-established from the loaded revision (re-delivery)
			if etcd.BreakWatch(f.Intn(4), f.Intn(3)) {
				r.FaultFired("watch-broken")
				r.Logf("broke a watch")
				// changes that fall into the gap before the watch is re-established
				for j := o.Intn(3); j > 0; j-- {
					mutate()
					r.Probe("change_while_watch_broken")
				}
			}
		case o.Intn(5) == 4 && len(subs) < 4:
			if o.Intn(2) == 0 {
				// it joins while watch events are being worked on: whatever it misses in the replay of the current
				// set it must get as an event (checked once everything has been processed)
				for j := 0; j < 1+o.Intn(3); j++ {
					mutate()
				}
				etcd.Deliver(o.Intn(2) == 0)
				r.Probe("join_while_events_in_progress")
				together++
				ok := attach()
				together--
				if !ok {
					return
				}
				break
			}
			ok := attach()
			if !ok {
				return
			}
		default:
			n := 1 + o.Intn(3)
			for j := 0; j < n; j++ {
				mutate()
			}
			if o.Intn(2) == 0 {
				// somebody reads the lists while the events are being applied
				readers := append([]*c15Sub(nil), subs...)
				r.Go("reader", func() {
					for k := 0; k < 4; k++ {
						for _, cs := range readers {
							cs.s.Values()
						}
						zsim.Yield("reader")
					}
				})
			}
			etcd.Deliver(o.Intn(2) == 0)
		}
		r.Quiesce()
		etcd.Deliver(false)
		settle()
		if !check(fmt.Sprintf("step %d", i)) {
			return
		}
		for j, s := range subs {
			prev := prevOf[s.prefix]
			if now := strings.Join(expected(s.prefix, false), ","); now != prev && j < len(before) && !s.exclusive && s.changes == before[j] {
				r.Failf("listener-not-called", "the live set under %s changed from [%s] to [%s] but subscriber %d's change listener did not run", s.prefix, prev, now, j)
				return
			}
		}
	}
}
