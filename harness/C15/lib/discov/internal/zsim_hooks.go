//go:build verif

package internal

import (
	"context"
	"sort"
	"strings"
	"time"

	"github.com/gotid/god/internal/zsim"
	"github.com/gotid/god/lib/syncx"
	pb "go.etcd.io/etcd/api/v3/etcdserverpb"
	"go.etcd.io/etcd/api/v3/mvccpb"
	clientv3 "go.etcd.io/etcd/client/v3"
	"google.golang.org/grpc"
	"google.golang.org/grpc/connectivity"
)

// Simulation seams for C15 (only compiled with -tags verif, only present in
// the scratch copy): a scripted EtcdClient over a revisioned model store,
// pre-registered in connManager, and access to the cluster's reload.

// ZsimReset forgets every cluster and connection of earlier runs.
func ZsimReset() {
	ZsimSeam_NewClient = nil
	ZsimArgs_stateWatcher_watch = nil
	registry.lock.Lock()
	registry.clusters = make(map[string]*cluster)
	registry.lock.Unlock()
	connManager = syncx.NewResourceManager()
}

// ZsimEvent is one change of the model store.
type ZsimEvent struct {
	Rev    int64
	Delete bool
	Key    string
	Val    string
}

type zsimWatcher struct {
	prefix string
	next   int64 // next revision to deliver
	ch     chan clientv3.WatchResponse
	dead   bool
}

// ZsimEtcd is the stub etcd.
type ZsimEtcd struct {
	R          *zsim.Run
	Rev        int64
	Data       map[string]string
	History    []ZsimEvent
	Watchers   []*zsimWatcher
	Connected  bool
	Conn       *ZsimConn // connectivity as the state watcher sees it (seam mode)
	DialFaults int       // the next n NewClient calls fail (seam mode)
	Dials      int
	GetFaults  int           // the next n Get calls fail
	GetDelay   time.Duration // every Get takes this long (virtual)
	Gets       int
	Watches    int
}

func NewZsimEtcd(r *zsim.Run) *ZsimEtcd {
	return &ZsimEtcd{R: r, Rev: 1, Data: map[string]string{}, Connected: true}
}

// ZsimRegister makes the registry use this stub for the endpoints.
func (e *ZsimEtcd) ZsimRegister(endpoints []string) {
	connManager.Set(getClusterKey(append([]string(nil), endpoints...)), e)
}

// ZsimConn is the connection whose state the real stateWatcher follows.
type ZsimConn struct {
	state connectivity.State
	ch    chan struct{}
}

func (c *ZsimConn) GetState() connectivity.State { return c.state }

func (c *ZsimConn) WaitForStateChange(ctx context.Context, src connectivity.State) bool {
	for c.state == src {
		zsim.Recv((<-chan struct{})(c.ch))
	}
	return true
}

// Set changes the connectivity state and wakes the watcher.
func (c *ZsimConn) Set(s connectivity.State) {
	old := c.ch
	c.state, c.ch = s, make(chan struct{})
	zsim.Close(old)
}

// ZsimUseSeams routes the registry's own dialling and connection-state watching to the stub: NewClient
// returns it (or fails while DialFaults > 0) and the real stateWatcher watches e.Conn, so a reconnect
// reaches cluster.reload the way it does in production.
func (e *ZsimEtcd) ZsimUseSeams() {
	e.Conn = &ZsimConn{state: connectivity.Ready, ch: make(chan struct{})}
	ZsimSeam_NewClient = func(endpoints []string) (EtcdClient, error) {
		e.Dials++
		if e.DialFaults > 0 {
			e.DialFaults--
			e.R.FaultFired("etcd-dial-error")
			return nil, context.DeadlineExceeded
		}
		return e, nil
	}
	ZsimArgs_stateWatcher_watch = func(w *stateWatcher, conn etcdConn) (*stateWatcher, etcdConn) {
		return w, e.Conn
	}
}

// ZsimReload does what the connection-state listener does on reconnect.
func (e *ZsimEtcd) ZsimReload(endpoints []string) {
	c, _ := registry.getCluster(append([]string(nil), endpoints...))
	c.reload(e)
}

// Put / Delete change the model store (and are delivered by Deliver).
func (e *ZsimEtcd) Apply(del bool, key, val string) {
	e.Rev++
	if del {
		val = e.Data[key]
		delete(e.Data, key)
	} else {
		e.Data[key] = val
	}
	e.History = append(e.History, ZsimEvent{e.Rev, del, key, val})
}

// Deliver sends every not yet delivered event to the live watchers, batched per watcher.
func (e *ZsimEtcd) Deliver(batch bool) {
	if !e.Connected {
		return
	}
	for _, w := range e.Watchers {
		if w.dead {
			continue
		}
		var evs []*clientv3.Event
		for _, h := range e.History {
			if h.Rev < w.next || !strings.HasPrefix(h.Key, w.prefix) {
				continue
			}
			t := mvccpb.PUT
			if h.Delete {
				t = mvccpb.DELETE
			}
			val := h.Val
			if h.Delete {
				val = "" // the registry watches without WithPrevKV: a delete event does not carry the value
			}
			evs = append(evs, &clientv3.Event{Type: t, Kv: &mvccpb.KeyValue{Key: []byte(h.Key), Value: []byte(val), ModRevision: h.Rev}})
			if !batch {
				w.ch <- clientv3.WatchResponse{Events: evs}
				evs = nil
			}
		}
		w.next = e.Rev + 1
		if len(evs) > 0 {
			w.ch <- clientv3.WatchResponse{Events: evs}
		}
	}
}

// Disconnect: the live watches silently stop delivering (their events are lost).
func (e *ZsimEtcd) Disconnect() {
	e.Connected = false
	for _, w := range e.Watchers {
		w.dead = true
	}
}

// BreakWatch makes one live watch fail the way etcd watches do: 0 closed channel, 1 cancelled, 2 compacted.
func (e *ZsimEtcd) BreakWatch(i, how int) bool {
	var live []*zsimWatcher
	for _, w := range e.Watchers {
		if !w.dead {
			live = append(live, w)
		}
	}
	if len(live) == 0 {
		return false
	}
	w := live[i%len(live)]
	w.dead = true
	switch how {
	case 0:
		close(w.ch)
	case 1:
		w.ch <- clientv3.WatchResponse{Canceled: true}
	default:
		w.ch <- clientv3.WatchResponse{CompactRevision: 1, Canceled: true}
	}
	return true
}

func (e *ZsimEtcd) ActiveConnection() *grpc.ClientConn { return nil }
func (e *ZsimEtcd) Close() error                       { return nil }
func (e *ZsimEtcd) Ctx() context.Context               { return context.Background() }

func (e *ZsimEtcd) Get(ctx context.Context, key string, opts ...clientv3.OpOption) (*clientv3.GetResponse, error) {
	e.Gets++
	if e.GetDelay > 0 {
		zsim.Sleep(e.GetDelay)
	}
	if err := ctx.Err(); err != nil {
		return nil, err // like the real client: a request with a finished context fails with its error
	}
	if e.GetFaults > 0 {
		e.GetFaults--
		e.R.FaultFired("etcd-get-error")
		return nil, context.DeadlineExceeded
	}
	var keys []string
	for k := range e.Data {
		if strings.HasPrefix(k, key) {
			keys = append(keys, k)
		}
	}
	sort.Strings(keys)
	resp := &clientv3.GetResponse{Header: &pb.ResponseHeader{Revision: e.Rev}}
	for _, k := range keys {
		resp.Kvs = append(resp.Kvs, &mvccpb.KeyValue{Key: []byte(k), Value: []byte(e.Data[k])})
	}
	return resp, nil
}

func (e *ZsimEtcd) Watch(ctx context.Context, key string, opts ...clientv3.OpOption) clientv3.WatchChan {
	e.Watches++
	op := clientv3.OpGet(key, opts...)
	w := &zsimWatcher{prefix: key, next: op.Rev(), ch: make(chan clientv3.WatchResponse, 4096)}
	if w.next == 0 {
		w.next = e.Rev + 1
	}
	if !e.Connected {
		w.dead = true
	}
	e.Watchers = append(e.Watchers, w)
	return w.ch
}

func (e *ZsimEtcd) Grant(ctx context.Context, ttl int64) (*clientv3.LeaseGrantResponse, error) {
	panic("not used")
}
func (e *ZsimEtcd) KeepAlive(ctx context.Context, id clientv3.LeaseID) (<-chan *clientv3.LeaseKeepAliveResponse, error) {
	panic("not used")
}
func (e *ZsimEtcd) Put(ctx context.Context, key, val string, opts ...clientv3.OpOption) (*clientv3.PutResponse, error) {
	panic("not used")
}
func (e *ZsimEtcd) Revoke(ctx context.Context, id clientv3.LeaseID) (*clientv3.LeaseRevokeResponse, error) {
	panic("not used")
}
