//go:build verif

package auth

import (
	"context"
	"fmt"
	"testing"
	"time"

	"github.com/gotid/god/internal/zsim"
	"github.com/gotid/god/internal/zsim/zredis"
	"github.com/gotid/god/lib/logx"
	"github.com/gotid/god/lib/store/redis"
	"github.com/gotid/god/lib/timex"
	"google.golang.org/grpc/codes"
	"google.golang.org/grpc/metadata"
	"google.golang.org/grpc/status"
)

// C04 (RPC half) - an RPC server with auth enabled rejects a call lacking
// app/token metadata or whose token differs from the stored one, admits a
// matching token; an app with no stored token, or a store failure, is
// rejected only in strict mode. Real: auth.Authenticator, collection.Cache
// (5 minute cache on the simulated clock), lib/store/redis, go-redis,
// miniredis behind the simulated transport.

func init() { logx.Disable() }

func TestZsimC04Rpc(t *testing.T) {
	zsim.Main(t, zsim.Harness{
		Property: "C04", Name: "rpc-auth",
		Run:      c04RpcRun,
		Horizon:  24 * time.Hour,
		MaxSteps: 400000,
		Rule:     "histories of Authenticate calls with metadata variants (none, app only, empty values, right / wrong token, unknown app) interleaved with clock advances around the 5 minute cache window, changes of the stored token, and store faults (network cut, error replies), strict and non-strict; a quarter of the runs: 2-4 callers of one app arrive together on a cold cache behind a slow HGET and some of them are cancelled while it is in flight (the others must get the right verdict); oracle = verdict follows the stored token, with the previous verdict tolerated inside the cache's 95%..105% (+-2s) expiry window; non-trivial = a store fault fired or the stored token changed; distinct = distinct event-log fingerprint",
		Real:     []string{"rpc/internal/auth.Authenticator", "lib/collection.Cache + TimingWheel", "lib/store/redis + breaker", "go-redis", "miniredis"},
		Stub:     []string{"callers (metadata)", "network to the token store", "simulated clock"},
	})
}

// c04RpcTogether: several callers of one app arrive together on a cold cache and share one slow lookup; some of
// them give up (context cancelled) while it is in flight. A caller that did not give up gets the verdict the stored
// token implies: another caller's cancellation is not a store failure.
func c04RpcTogether(r *zsim.Run) {
	o, f := r.Ops, r.Fault
	srv := zredis.Start(r, "sim-auth:6379")
	defer srv.Close()
	redis.ZsimRegister(srv.Addr, srv.Client)
	store := redis.New(srv.Addr)
	strict := o.Intn(2) == 0
	a, err := NewAuthenticator(store, "apps", strict)
	if err != nil {
		r.Failf("constructor", "%v", err)
		return
	}
	srv.M.HSet("apps", "app1", "tok-1")
	lookup := time.Duration(zsim.Pick(o, 20, 50, 200)) * time.Millisecond
	srv.Stall = func(cmd string, args []string) time.Duration {
		if cmd == "HGET" {
			return lookup
		}
		return 0
	}
	n := 2 + o.Intn(3)
	done := 0
	r.Logf("rpc auth together strict=%v callers=%d lookup=%v", strict, n, lookup)
	for c := 0; c < n; c++ {
		c := c
		token := zsim.Pick(o, "tok-1", "tok-1", "wrong")
		var giveUp time.Duration = -1
		if f.Intn(2) == 1 {
			giveUp = time.Duration(f.Intn(int(lookup/time.Millisecond)+10)) * time.Millisecond
		}
		start := time.Duration(o.Intn(3)) * time.Millisecond
		r.Go(fmt.Sprintf("caller%d", c), func() {
			defer func() { done++ }()
			zsim.Sleep(start)
			ctx, cancel := context.WithCancel(metadata.NewIncomingContext(context.Background(), metadata.Pairs("app", "app1", "token", token)))
			defer cancel()
			if giveUp >= 0 {
				r.FaultFired("caller-cancelled")
				zsim.AfterFunc(giveUp, cancel)
			}
			err := a.Authenticate(ctx)
			code := status.Code(err)
			r.Logf("caller %d token=%s giveUp=%v -> %v (%v)", c, token, giveUp, code, err)
			if giveUp >= 0 {
				return // it no longer cares
			}
			want := codes.OK
			if token != "tok-1" {
				want = codes.Unauthenticated
			}
			if code != want {
				r.Failf("wrong-verdict", "caller %d (token %q, stored \"tok-1\", store healthy, strict=%v) never gave up but got %v (%v), want %v: it shared the lookup of a caller that was cancelled", c, token, strict, code, err, want)
			}
		})
	}
	if !r.WaitFor(time.Minute, 10*time.Millisecond, func() bool { return done == n }) {
		r.Failf("callers-blocked", "callers blocked: %v", r.Alive(false))
	}
	r.NonTrivial()
}

func c04RpcRun(r *zsim.Run) {
	timex.ZsimReset()
	redis.ZsimResetClients()
	r.RandMode = 2 // the store's breaker never rejects: store failures are the injected ones only
	o, f := r.Ops, r.Fault
	if o.Intn(4) == 0 {
		c04RpcTogether(r)
		return
	}
	srv := zredis.Start(r, "sim-auth:6379")
	defer srv.Close()
	redis.ZsimRegister(srv.Addr, srv.Client)
	store := redis.New(srv.Addr)
	strict := o.Intn(2) == 0
	a, err := NewAuthenticator(store, "apps", strict)
	if err != nil {
		r.Failf("constructor", "%v", err)
		return
	}
	defer a.cache.Del("x")
	stored := map[string]string{"app1": "tok-1"}
	srv.M.HSet("apps", "app1", "tok-1")
	type cached struct {
		val string
		at  time.Duration
	}
	cache := map[string][]*cached{}
	const exp = 5 * time.Minute
	down := false
	r.Logf("rpc auth strict=%v", strict)
	for i := 0; i < 8+o.Intn(20) && !r.Failed(); i++ {
		switch o.Intn(8) {
		case 0:
			srv.Advance(time.Duration(1+o.Intn(120)) * time.Second)
			continue
		case 1:
			srv.Advance(zsim.Pick(o, exp*95/100-4*time.Second, exp*105/100+4*time.Second, exp))
			continue
		case 2: // the stored token changes (or disappears)
			app := zsim.Pick(o, "app1", "app2")
			if o.Intn(4) == 0 {
				srv.M.HDel("apps", app)
				delete(stored, app)
			} else {
				v := fmt.Sprintf("tok-%d", i)
				srv.M.HSet("apps", app, v)
				stored[app] = v
			}
			r.NonTrivial()
			r.Logf("stored tokens now %v", stored)
			continue
		case 3:
			if f.Intn(2) == 1 {
				if down {
					srv.Heal()
					srv.FailReply = nil
				} else if f.Intn(2) == 0 {
					srv.Cut()
				} else {
					srv.FailReply = func(cmd string, args []string) string { r.FaultFired("redis-error-reply"); return "ERR injected" }
				}
				down = !down
				r.Logf("store down=%v", down)
				continue
			}
		}
		app := zsim.Pick(o, "app1", "app1", "app2", "app3")
		variant := o.Intn(7)
		ctx := context.Background()
		token := stored[app]
		if token == "" {
			token = "some-token"
		}
		metaOK := true
		switch variant {
		case 0:
			metaOK = false // no metadata at all
		case 1:
			ctx = metadata.NewIncomingContext(ctx, metadata.Pairs("app", app))
			metaOK = false
		case 2:
			ctx = metadata.NewIncomingContext(ctx, metadata.Pairs("app", app, "token", ""))
			metaOK = false
		case 3:
			token = "wrong-" + token
			ctx = metadata.NewIncomingContext(ctx, metadata.Pairs("app", app, "token", token))
		default:
			ctx = metadata.NewIncomingContext(ctx, metadata.Pairs("app", app, "token", token))
		}
		now := r.Now()
		err := a.Authenticate(ctx)
		code := status.Code(err)
		r.Logf("authenticate app=%s variant=%d down=%v -> %v (%v)", app, variant, down, code, err)
		if !metaOK {
			if code != codes.Unauthenticated {
				r.Failf("missing-metadata-admitted", "a call without complete app/token metadata got %v, want Unauthenticated", code)
			}
			continue
		}
		// verdicts the history allows
		verdict := func(expect string, fetchErr bool) codes.Code {
			switch {
			case fetchErr && strict:
				return codes.Internal
			case fetchErr:
				return codes.OK
			case token == expect:
				return codes.OK
			}
			return codes.Unauthenticated
		}
		// the cache entry is not observable: track every state the history allows (nil = no entry)
		states, known := cache[app]
		if !known {
			states = []*cached{nil}
		}
		type outcome struct {
			code codes.Code
			next *cached
		}
		var outs []outcome
		fetch := func() outcome {
			cur, ok := stored[app]
			if !ok || down {
				return outcome{verdict("", true), nil} // errors are not cached
			}
			return outcome{verdict(cur, false), &cached{cur, now}}
		}
		for _, st := range states {
			switch {
			case st != nil && now < st.at+exp*95/100-2*time.Second:
				outs = append(outs, outcome{verdict(st.val, false), st})
			case st != nil && now <= st.at+exp*105/100+2*time.Second:
				outs = append(outs, outcome{verdict(st.val, false), st}, fetch())
			default:
				outs = append(outs, fetch())
			}
		}
		var next []*cached
		var allowed []codes.Code
		for _, oc := range outs {
			allowed = append(allowed, oc.code)
			if oc.code != code {
				continue
			}
			dup := false
			for _, n := range next {
				if n == oc.next || n != nil && oc.next != nil && *n == *oc.next {
					dup = true
				}
			}
			if !dup {
				next = append(next, oc.next)
			}
		}
		if len(next) == 0 {
			r.Failf("wrong-verdict", "app %s token %q (stored %q, store down=%v, strict=%v) at %v: got %v, the history allows %v", app, token, stored[app], down, strict, now, code, allowed)
			return
		}
		cache[app] = next
	}
}
