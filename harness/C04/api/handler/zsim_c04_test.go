//go:build verif

package handler

import (
	"bytes"
	"crypto/hmac"
	"crypto/rand"
	"crypto/rsa"
	"crypto/sha256"
	"crypto/sha512"
	"crypto/x509"
	"encoding/base64"
	"encoding/json"
	"encoding/pem"
	"fmt"
	"hash"
	"net/http"
	"net/http/httptest"
	"os"
	"path/filepath"
	"strings"
	"testing"
	"time"

	"github.com/gotid/god/api/httpx"
	"github.com/gotid/god/internal/zsim"
	"github.com/gotid/god/lib/codec"
	"github.com/gotid/god/lib/logx"
	"github.com/gotid/god/lib/timex"
)

// C04 (REST half) - authentication gates admit exactly the correctly
// authenticated requests. Real: handler.Authorize + token.Parser (adaptive
// secret order, 24h reset), ContentSecurityHandler + security.Parse/Verify,
// codec RSA/HMAC. Stub: clients (tokens and signed requests are built with
// crypto/hmac and manual JWT encoding, independently of the library), inner
// handlers, the clock.

func init() { logx.Disable() }

func TestZsimC04(t *testing.T) {
	zsim.Main(t, zsim.Harness{
		Property: "C04", Name: "rest-auth",
		Run:      c04Run,
		Horizon:  20 * 24 * time.Hour,
		MaxSteps: 400000,
		Rule:     "JWT class: 1-3 client tasks send requests whose bearer token is signed with the current / previous / a wrong secret, HS256/384/512 or none/RS256 headers, malformed or tampered, with exp/nbf/iat one second before / after the simulated clock, over histories with > 24h gaps (the parser's hit counters reset); signature class: requests signed correctly and then tampered in one field (timestamp offset around the tolerance, method, path, query, body, signature, fingerprint, secret), strict and non-strict; oracle = handler ran iff the independent reference predicate holds, 401 / 403 otherwise, claims visible; non-trivial = at least one request was rejected and one admitted; distinct = distinct event-log fingerprint",
		Real:     []string{"api/handler.Authorize", "api/token.Parser", "api/handler.ContentSecurityHandler", "api/internal/security", "lib/codec RSA + HMAC", "golang-jwt (real)"},
		Stub:     []string{"clients (independent token / signature construction)", "inner handlers", "simulated clock"},
	})
}

func c04Run(r *zsim.Run) {
	timex.ZsimReset()
	zsim.Sleep(500 * time.Millisecond) // the clock sits half-way between whole seconds: time claims never equal "now"
	if r.Ops.Intn(3) == 2 {
		c04Signature(r)
		return
	}
	c04JWT(r)
}

func b64(b []byte) string { return base64.RawURLEncoding.EncodeToString(b) }

func c04Token(alg, secret string, claims map[string]any) string {
	hb, _ := json.Marshal(map[string]string{"alg": alg, "typ": "JWT"})
	cb, _ := json.Marshal(claims)
	signing := b64(hb) + "." + b64(cb)
	var h func() hash.Hash
	switch alg {
	case "HS256", "RS256":
		h = sha256.New
	case "HS384":
		h = sha512.New384
	case "HS512":
		h = sha512.New
	default:
		return signing + "."
	}
	m := hmac.New(h, []byte(secret))
	m.Write([]byte(signing))
	return signing + "." + b64(m.Sum(nil))
}

func c04JWT(r *zsim.Run) {
	o := r.Ops
	cur, prev := "current-secret-"+fmt.Sprint(o.Intn(3)), ""
	var opts []AuthorizeOption
	if o.Intn(3) > 0 {
		prev = "previous-secret"
		opts = append(opts, WithPrevSecret(prev))
	}
	ranFor := map[string]bool{}
	uidFor := map[string]any{}
	h := Authorize(cur, opts...)(http.HandlerFunc(func(w http.ResponseWriter, req *http.Request) {
		id := req.Header.Get("X-Req")
		ranFor[id] = true
		uidFor[id] = req.Context().Value("uid")
		w.WriteHeader(http.StatusOK)
	}))
	r.Logf("jwt prev=%v", prev != "")
	clients := 1 + o.Intn(3)
	done := 0
	admitted, rejected := 0, 0
	// well-formed, correctly signed tokens issued so far: clients present them again later, when their time
	// claims may have stopped (or started) to hold
	type issuedTok struct {
		header string
		claims map[string]any
	}
	var issued []issuedTok
	timeValid := func(claims map[string]any) bool {
		now := time.Now().Unix() // the clock is at now+0.5s
		if e, ok := claims["exp"].(int64); ok && e <= now {
			return false
		}
		if n, ok := claims["nbf"].(int64); ok && n > now {
			return false
		}
		if n, ok := claims["iat"].(int64); ok && n > now {
			return false
		}
		return true
	}
	for c := 0; c < clients; c++ {
		c := c
		n := 3 + o.Intn(12)
		r.Go(fmt.Sprintf("client%d", c), func() {
			defer func() { done++ }()
			for i := 0; i < n && !r.Failed(); i++ {
				switch o.Intn(8) {
				case 0:
					zsim.Sleep(time.Duration(1+o.Intn(100)) * time.Second)
				case 1:
					zsim.Sleep(25 * time.Hour) // beyond the parser's counter reset
				}
				now := time.Now().Unix() // the clock is at now+0.5s
				claims := map[string]any{"uid": c*1000 + i, "sub": "registered"}
				timeOK := true
				switch o.Intn(6) {
				case 0:
					claims["exp"] = now + 1 // still valid for half a second
				case 1:
					claims["exp"] = now // expired half a second ago
					timeOK = false
				case 2:
					claims["exp"] = now + 3600
					claims["nbf"] = now + 1 // not yet valid
					timeOK = false
				case 3:
					claims["exp"] = now + 3600
					claims["nbf"] = now
					claims["iat"] = now
				case 4:
					claims["exp"] = now - 86400
					timeOK = false
				default:
					claims["exp"] = now + 60
				}
				secretKind := o.Intn(5)
				secret := []string{cur, prev, "wrong-secret", cur, prev}[secretKind]
				secretOK := secret == cur || (prev != "" && secret == prev)
				if secret == "" {
					secret, secretOK = "no-such-secret", false
				}
				alg := zsim.Pick(o, "HS256", "HS256", "HS384", "HS512", "none", "RS256")
				algOK := strings.HasPrefix(alg, "HS")
				tok := c04Token(alg, secret, claims)
				shapeOK := true
				header := "Bearer " + tok
				switch o.Intn(9) {
				case 0: // tampered payload
					parts := strings.Split(tok, ".")
					claims["uid"] = 424242
					cb, _ := json.Marshal(claims)
					header = "Bearer " + parts[0] + "." + b64(cb) + "." + parts[2]
					shapeOK = false
				case 1:
					header = "Bearer " + strings.Join(strings.Split(tok, ".")[:2], ".")
					shapeOK = false
				case 2:
					header = ""
					shapeOK = false
				case 3:
					header = "Bearer garbage.not-a.token"
					shapeOK = false
				}
				reused := false
				if len(issued) > 0 && o.Intn(4) == 0 {
					// the very same token string again
					it := issued[o.Intn(len(issued))]
					header, claims = it.header, it.claims
					timeOK, secretOK, algOK, shapeOK, reused = timeValid(claims), true, true, true, true
					r.Probe("token_presented_again")
					if !timeOK {
						r.Probe("token_presented_again_after_expiry")
					}
				} else if secretOK && algOK && shapeOK {
					issued = append(issued, issuedTok{header, claims})
				}
				req := httptest.NewRequest(http.MethodGet, "http://sim/protected", nil)
				if header != "" {
					req.Header.Set("Authorization", header)
				}
				rec := httptest.NewRecorder()
				id := fmt.Sprintf("%d-%d", c, i)
				req.Header.Set("X-Req", id)
				h.ServeHTTP(rec, req)
				ran, seenUID := ranFor[id], uidFor[id]
				want := timeOK && secretOK && algOK && shapeOK
				r.Logf("c%d token alg=%s secret=%d timeOK=%v shapeOK=%v reused=%v -> %d ran=%v (want %v)", c, alg, secretKind, timeOK, shapeOK, reused, rec.Code, ran, want)
				if want != ran {
					if want {
						r.Failf("valid-token-rejected", "a bearer token signed with %s (alg %s, valid time claims) was rejected with status %d", map[bool]string{true: "the current secret", false: "the previous secret"}[secret == cur], alg, rec.Code)
					} else {
						r.Failf("invalid-token-admitted", "the handler ran for a token with alg=%s secretOK=%v timeOK=%v wellFormed=%v", alg, secretOK, timeOK, shapeOK)
					}
					return
				}
				if want {
					admitted++
					if fmt.Sprint(seenUID) != fmt.Sprint(claims["uid"]) {
						r.Failf("claims-not-visible", "the token's uid claim %v is not visible in the request context (got %v)", claims["uid"], seenUID)
						return
					}
				} else {
					rejected++
					if rec.Code != http.StatusUnauthorized {
						r.Failf("wrong-rejection-status", "a request without a valid token was answered %d, want 401", rec.Code)
						return
					}
				}
			}
		})
	}
	if !r.WaitFor(19*24*time.Hour, time.Hour, func() bool { return done == clients }) {
		r.Failf("clients-blocked", "clients blocked: %v", r.Alive(false))
		return
	}
	if admitted > 0 && rejected > 0 {
		r.NonTrivial()
	}
}

type c04Body struct{ r *bytes.Reader }

func (b *c04Body) Read(p []byte) (int, error) {
	zsim.Yield("body.read")
	return b.r.Read(p)
}

var c04Key *rsa.PrivateKey // generated once per process (key material never enters the event log)

func c04Signature(r *zsim.Run) {
	o := r.Ops
	if c04Key == nil {
		c04Key, _ = rsa.GenerateKey(rand.Reader, 1024)
	}
	dir, err := os.MkdirTemp(os.Getenv("ZSIM_TMP"), "c04-")
	if err != nil {
		r.Failf("harness-tmpdir", "%v", err)
		return
	}
	defer os.RemoveAll(dir)
	keyFile := filepath.Join(dir, "priv.pem")
	os.WriteFile(keyFile, pem.EncodeToMemory(&pem.Block{Type: "RSA PRIVATE KEY", Bytes: x509.MarshalPKCS1PrivateKey(c04Key)}), 0o600)
	dec, err := codec.NewRsaDecryptor(keyFile)
	if err != nil {
		r.Failf("harness-key", "%v", err)
		return
	}
	strict := o.Intn(4) != 0
	tolerance := zsim.Pick(o, time.Minute, time.Hour)
	ranFor := map[string]bool{}
	h := ContentSecurityHandler(map[string]codec.RsaDecryptor{"fp1": dec}, tolerance, strict)(http.HandlerFunc(func(w http.ResponseWriter, req *http.Request) {
		ranFor[req.Header.Get("X-Req")] = true
		w.WriteHeader(http.StatusOK)
	}))
	r.Logf("signature strict=%v tolerance=%v", strict, tolerance)
	admitted, rejected := 0, 0
	// some runs are one client session: every request carries the same encrypted secret (same key, same
	// timestamp, the very same ciphertext) and its own signature, as a client does that negotiates once
	session := o.Intn(3) == 0
	sessTs := time.Now().Unix()
	sessKey := []byte("hmac-key-of-the-session")
	sessSecret := ""
	if session {
		enc, err := rsa.EncryptPKCS1v15(rand.Reader, &c04Key.PublicKey, []byte(fmt.Sprintf("key=%s; time=%d; type=0", base64.StdEncoding.EncodeToString(sessKey), sessTs)))
		if err != nil {
			r.Failf("harness-encrypt", "%v", err)
			return
		}
		sessSecret = base64.StdEncoding.EncodeToString(enc)
		r.Probe("one_secret_for_the_session")
	}
	// the one decryptor per fingerprint is shared by every request in flight
	clients, done := 1+o.Intn(3), 0
	for c := 0; c < clients; c++ {
		c := c
		n := 6 + o.Intn(14)/clients
		r.Go(fmt.Sprintf("client%d", c), func() {
			defer func() { done++ }()
			for i := 0; i < n && !r.Failed(); i++ {
				if o.Intn(4) == 0 {
					zsim.Sleep(time.Duration(1+o.Intn(4000)) * time.Second)
				}
				method := zsim.Pick(o, http.MethodPost, http.MethodGet, http.MethodPut, http.MethodDelete, http.MethodPatch)
				path := zsim.Pick(o, "/a/b", "/x")
				query := zsim.Pick(o, "k=v&n=1", "", "q=1")
				body := zsim.Pick(o, `{"a":1}`, "", "payload")
				now := time.Now().Unix()
				tol := int64(tolerance / time.Second)
				// (far-away timestamps too: offsets that overflow when turned into nanoseconds)
				off := zsim.Pick(o, int64(0), 0, -tol+2, tol-2, -tol-2, tol+2, 0, 0, 1<<55, -(1 << 55), 1<<56+3, -(1<<55)+tol/2, 1<<34)
				ts := fmt.Sprint(now + off)
				key := []byte(fmt.Sprintf("hmac-key-%d-%d", c, i))
				if session {
					off, ts, key = sessTs-now, fmt.Sprint(sessTs), sessKey
				}
				sum := sha256.Sum256([]byte(body))
				content := strings.Join([]string{ts, method, path, query, fmt.Sprintf("%x", sum[:])}, "\n")
				m := hmac.New(sha256.New, key)
				m.Write([]byte(content))
				sig := base64.StdEncoding.EncodeToString(m.Sum(nil))
				secretPlain := fmt.Sprintf("key=%s; time=%s; type=0", base64.StdEncoding.EncodeToString(key), ts)
				enc, err := rsa.EncryptPKCS1v15(rand.Reader, &c04Key.PublicKey, []byte(secretPlain))
				if err != nil {
					r.Failf("harness-encrypt", "%v", err)
					return
				}
				fp := "fp1"
				secret := base64.StdEncoding.EncodeToString(enc)
				if session {
					secret = sessSecret
				}
				tamper := zsim.Pick(o, "none", "none", "method", "path", "query", "body", "signature", "fingerprint", "secret", "header-missing")
				sendMethod, sendPath, sendQuery, sendBody := method, path, query, body
				switch tamper {
				case "method":
					sendMethod = map[string]string{http.MethodPost: http.MethodPut, http.MethodGet: http.MethodDelete, http.MethodPut: http.MethodPost, http.MethodDelete: http.MethodGet, http.MethodPatch: http.MethodPost}[method]
				case "path":
					sendPath = path + "/other"
				case "query":
					sendQuery = query + "&admin=1"
				case "body":
					sendBody = body + "!"
				case "signature":
					sig = base64.StdEncoding.EncodeToString([]byte("forged-signature-000000000000000"))
				case "fingerprint":
					fp = "unknown"
				case "secret":
					secret = base64.StdEncoding.EncodeToString([]byte("not rsa"))
				}
				url := "http://sim" + sendPath
				if sendQuery != "" {
					url += "?" + sendQuery
				}
				// the body arrives from the network: reading it is a scheduling point (other requests run meanwhile)
				req := httptest.NewRequest(sendMethod, url, &c04Body{bytes.NewReader([]byte(sendBody))})
				req.ContentLength = int64(len(sendBody))
				chunked := o.Intn(4) == 0
				if chunked {
					req.ContentLength = -1 // Transfer-Encoding: chunked: the length is unknown when the gate runs
				}
				if tamper != "header-missing" {
					req.Header.Set(httpx.ContentSecurity, fmt.Sprintf("fingerprint=%s; secret=%s; signature=%s", fp, secret, sig))
				}
				rec := httptest.NewRecorder()
				id := fmt.Sprintf("%d-%d", c, i)
				req.Header.Set("X-Req", id)
				h.ServeHTTP(rec, req)
				handlerRan := ranFor[id]
				checked := sendMethod != http.MethodPatch // only GET/POST/PUT/DELETE are verified
				inTol := off >= -tol && off <= tol
				want := !checked || !strict || (tamper == "none" && inTol)
				if tamper == "method" && sendMethod != http.MethodPatch && method == http.MethodPatch {
					want = !strict // a PATCH-signed request replayed as POST
				}
				r.Logf("req %s %s?%s tamper=%s off=%d chunked=%v -> %d ran=%v (want %v)", sendMethod, sendPath, sendQuery, tamper, off, chunked, rec.Code, handlerRan, want)
				if want != (handlerRan) {
					if want {
						r.Failf("valid-signature-rejected", "a correctly signed %s request (timestamp offset %ds, tolerance %ds, strict=%v) was rejected with %d", sendMethod, off, tol, strict, rec.Code)
					} else {
						r.Failf("tampered-request-admitted", "strict mode: the handler ran for a request with tampering=%s and timestamp offset %ds (tolerance %ds)", tamper, off, tol)
					}
					return
				}
				if want {
					admitted++
				} else {
					rejected++
					if rec.Code != http.StatusForbidden {
						r.Failf("wrong-rejection-status", "a request failing signature verification was answered %d, want 403", rec.Code)
						return
					}
				}
			}
		})
	}
	if !r.WaitFor(30*24*time.Hour, time.Hour, func() bool { return done == clients }) {
		r.Failf("clients-blocked", "clients blocked: %v", r.Alive(false))
		return
	}
	if admitted > 0 && rejected > 0 {
		r.NonTrivial()
	}
}
