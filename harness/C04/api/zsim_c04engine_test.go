//go:build verif

package api

import (
	"bytes"
	"crypto/hmac"
	"crypto/rand"
	"crypto/rsa"
	"crypto/sha256"
	"crypto/x509"
	"encoding/base64"
	"encoding/json"
	"encoding/pem"
	"fmt"
	"net/http"
	"net/http/httptest"
	"os"
	"path/filepath"
	"strings"
	"testing"
	"time"

	"github.com/gotid/god/api/httpx"
	"github.com/gotid/god/api/router"
	"github.com/gotid/god/internal/zsim"
	"github.com/gotid/god/lib/logx"
	"github.com/gotid/god/lib/timex"
)

// C04 (engine wiring) - the same gates as seen through the engine: routes
// registered with JWT (secret + previous secret) and signature settings are
// bound through engine.bindRoutes (appendAuthHandler, signatureVerifier) and
// served by the router with the complete default middleware chain.

func init() { logx.Disable() }

func TestZsimC04Engine(t *testing.T) {
	zsim.Main(t, zsim.Harness{
		Property: "C04", Name: "engine-auth",
		Run:      c04EngineRun,
		Horizon:  10 * 24 * time.Hour,
		MaxSteps: 400000,
		Rule:     "an engine with two JWT-protected route groups sharing the current secret but not the previous one (bound in either order), one signature-protected route (strict or not, key file generated into the scratch directory), one route with both protections (a request failing both is answered 401: the token is looked at first) and one open route; requests with tokens signed by the current / previous / wrong secret and valid or expired, signed requests correct or tampered or outside the tolerance; oracle = handler ran iff the reference predicate holds, 401 / 403 otherwise; non-trivial = at least one admitted and one rejected request; distinct = distinct event-log fingerprint",
		Real:     []string{"api engine.bindRoutes / appendAuthHandler / signatureVerifier + default chain", "api/router", "api/handler Authorize + ContentSecurityHandler", "api/token", "api/internal/security", "lib/codec"},
		Stub:     []string{"clients (independent token / signature construction)", "route handlers", "simulated clock"},
	})
}

var c04eKey, c04eKey2 *rsa.PrivateKey

func c04eToken(secret string, claims map[string]any) string {
	enc := base64.RawURLEncoding.EncodeToString
	hb, _ := json.Marshal(map[string]string{"alg": "HS256", "typ": "JWT"})
	cb, _ := json.Marshal(claims)
	signing := enc(hb) + "." + enc(cb)
	m := hmac.New(sha256.New, []byte(secret))
	m.Write([]byte(signing))
	return signing + "." + enc(m.Sum(nil))
}

func c04EngineRun(r *zsim.Run) {
	timex.ZsimReset()
	r.RandMode = 2 // route breakers never reject
	zsim.Sleep(500 * time.Millisecond)
	o := r.Ops
	if c04eKey == nil {
		c04eKey, _ = rsa.GenerateKey(rand.Reader, 1024)
		c04eKey2, _ = rsa.GenerateKey(rand.Reader, 1024)
	}
	dir, err := os.MkdirTemp(os.Getenv("ZSIM_TMP"), "c04e-")
	if err != nil {
		r.Failf("harness-tmpdir", "%v", err)
		return
	}
	defer os.RemoveAll(dir)
	keyFile := filepath.Join(dir, "priv.pem")
	os.WriteFile(keyFile, pem.EncodeToMemory(&pem.Block{Type: "RSA PRIVATE KEY", Bytes: x509.MarshalPKCS1PrivateKey(c04eKey)}), 0o600)
	// a second configured key: in a file of another name, or in a file of the same name in another directory
	keyFile2 := filepath.Join(dir, "priv2.pem")
	if o.Intn(2) == 0 {
		os.Mkdir(filepath.Join(dir, "app2"), 0o700)
		keyFile2 = filepath.Join(dir, "app2", "priv.pem")
	}
	os.WriteFile(keyFile2, pem.EncodeToMemory(&pem.Block{Type: "RSA PRIVATE KEY", Bytes: x509.MarshalPKCS1PrivateKey(c04eKey2)}), 0o600)
	cur, prev := "engine-current", ""
	if o.Intn(2) == 0 {
		prev = "engine-previous"
	}
	strict := o.Intn(3) != 0
	tolerance := time.Minute
	ran := map[string]bool{}
	mk := func(name string) http.HandlerFunc {
		return func(w http.ResponseWriter, req *http.Request) {
			ran[name+":"+req.Header.Get("X-Req")] = true
			w.WriteHeader(http.StatusOK)
		}
	}
	ng := newEngine(Config{Host: "sim", Port: 1, MaxConns: 100, MaxBytes: 1 << 20, Timeout: 3000})
	// a second group protected by the same current secret but another previous secret (or none): each group keeps
	// its own pair, whatever the order in which they are bound
	prev2 := zsim.Pick(o, "", "engine-previous-2", "engine-previous")
	if prev2 == prev {
		prev2 = map[bool]string{true: "engine-previous-2", false: ""}[prev == ""]
	}
	g1 := featuredRoutes{jwt: jwtSetting{enabled: true, secret: cur, prevSecret: prev}, routes: []Route{{Method: http.MethodGet, Path: "/jwt", Handler: mk("jwt")}}}
	g2 := featuredRoutes{jwt: jwtSetting{enabled: true, secret: cur, prevSecret: prev2}, routes: []Route{{Method: http.MethodGet, Path: "/jwt2", Handler: mk("jwt2")}}}
	if o.Intn(2) == 0 {
		ng.addRoutes(g1)
		ng.addRoutes(g2)
	} else {
		ng.addRoutes(g2)
		ng.addRoutes(g1)
	}
	ng.addRoutes(featuredRoutes{signature: signatureSetting{enabled: true, SignatureConfig: SignatureConfig{Strict: strict, Expire: tolerance, PrivateKeys: []PrivateKeyConfig{{Fingerprint: "fp1", KeyFile: keyFile}, {Fingerprint: "fp2", KeyFile: keyFile2}}}}, routes: []Route{{Method: http.MethodPost, Path: "/signed", Handler: mk("signed")}}})
	ng.addRoutes(featuredRoutes{routes: []Route{{Method: http.MethodGet, Path: "/open", Handler: mk("open")}}})
	// a group with both protections: the token is looked at first (401), the signature second (403)
	ng.addRoutes(featuredRoutes{jwt: jwtSetting{enabled: true, secret: cur, prevSecret: prev}, signature: signatureSetting{enabled: true, SignatureConfig: SignatureConfig{Strict: strict, Expire: tolerance, PrivateKeys: []PrivateKeyConfig{{Fingerprint: "fp1", KeyFile: keyFile}, {Fingerprint: "fp2", KeyFile: keyFile2}}}}, routes: []Route{{Method: http.MethodPost, Path: "/both", Handler: mk("both")}}})
	rt := router.NewRouter()
	if err := ng.bindRoutes(rt); err != nil {
		r.Failf("bind", "%v", err)
		return
	}
	r.Logf("engine prev=%v strict=%v", prev != "", strict)
	admitted, rejected := 0, 0
	for i := 0; i < 6+o.Intn(16) && !r.Failed(); i++ {
		if o.Intn(5) == 0 {
			zsim.Sleep(time.Duration(1+o.Intn(90000)) * time.Second)
		}
		id := fmt.Sprint(i)
		now := time.Now().Unix()
		var req *http.Request
		var route string
		want := true
		wantCode := 0
		signed := func(path string) (*http.Request, bool) {
			body := fmt.Sprintf(`{"n":%d}`, i)
			tol := int64(tolerance / time.Second)
			// (far-away timestamps too: offsets that overflow when turned into nanoseconds)
			off := zsim.Pick(o, int64(0), 0, tol-2, tol+2, -tol-2, 0, 1<<55, -(1 << 55), 1<<56+3, 1<<34)
			ts := fmt.Sprint(now + off)
			key := []byte("engine-hmac-" + id)
			sum := sha256.Sum256([]byte(body))
			content := strings.Join([]string{ts, http.MethodPost, path, "a=1", fmt.Sprintf("%x", sum[:])}, "\n")
			m := hmac.New(sha256.New, key)
			m.Write([]byte(content))
			sig := base64.StdEncoding.EncodeToString(m.Sum(nil))
			pub, fp := &c04eKey.PublicKey, "fp1"
			if o.Intn(2) == 0 {
				pub, fp = &c04eKey2.PublicKey, "fp2"
			}
			enc, _ := rsa.EncryptPKCS1v15(rand.Reader, pub, []byte(fmt.Sprintf("key=%s; time=%s; type=0", base64.StdEncoding.EncodeToString(key), ts)))
			tamper := zsim.Pick(o, "none", "none", "body", "query", "missing")
			q := "a=1"
			if tamper == "body" {
				body += " "
			}
			if tamper == "query" {
				q = "a=2"
			}
			rq := httptest.NewRequest(http.MethodPost, "http://sim"+path+"?"+q, bytes.NewReader([]byte(body)))
			if tamper != "missing" {
				rq.Header.Set(httpx.ContentSecurity, fmt.Sprintf("fingerprint=%s; secret=%s; signature=%s", fp, base64.StdEncoding.EncodeToString(enc), sig))
			}
			return rq, !strict || (tamper == "none" && off >= -tol && off <= tol)
		}
		switch o.Intn(6) {
		case 0:
			route = "open"
			req = httptest.NewRequest(http.MethodGet, "http://sim/open", nil)
		case 1, 2:
			route = "jwt"
			groupPrev := prev
			if o.Intn(2) == 0 {
				route, groupPrev = "jwt2", prev2
			}
			secret := zsim.Pick(o, cur, prev, "wrong", cur, prev2, "engine-previous", "engine-previous-2")
			ok := secret == cur || (groupPrev != "" && secret == groupPrev)
			if secret == "" {
				secret = "none"
			}
			exp := now + 100
			if o.Intn(3) == 0 {
				exp = now // expired half a second ago
				ok = false
			}
			req = httptest.NewRequest(http.MethodGet, "http://sim/"+route, nil)
			if o.Intn(6) != 0 {
				req.Header.Set("Authorization", "Bearer "+c04eToken(secret, map[string]any{"exp": exp, "uid": i}))
			} else {
				ok = false
			}
			want, wantCode = ok, http.StatusUnauthorized
		case 3:
			// both protections on one route
			route = "both"
			var sigOK bool
			req, sigOK = signed("/both")
			secret := zsim.Pick(o, cur, prev, "wrong", cur)
			jwtOK := secret == cur || (prev != "" && secret == prev)
			if secret == "" {
				secret = "none"
			}
			exp := now + 100
			if o.Intn(4) == 0 {
				exp = now
				jwtOK = false
			}
			if o.Intn(6) != 0 {
				req.Header.Set("Authorization", "Bearer "+c04eToken(secret, map[string]any{"exp": exp, "uid": i}))
			} else {
				jwtOK = false
			}
			want = jwtOK && sigOK
			wantCode = http.StatusUnauthorized
			if jwtOK {
				wantCode = http.StatusForbidden
			}
		default:
			route = "signed"
			req, want = signed("/signed")
			wantCode = http.StatusForbidden
		}
		req.Header.Set("X-Req", id)
		rec := httptest.NewRecorder()
		rt.ServeHTTP(rec, req)
		got := ran[route+":"+id]
		r.Logf("req %d %s -> %d ran=%v (want %v)", i, route, rec.Code, got, want)
		if got != want {
			if want {
				r.Failf("engine-valid-request-rejected", "route /%s: a correctly authenticated request was answered %d and the handler did not run", route, rec.Code)
			} else {
				r.Failf("engine-invalid-request-admitted", "route /%s: the handler ran for a request that is not correctly authenticated (status %d)", route, rec.Code)
			}
			return
		}
		if want {
			admitted++
		} else {
			rejected++
			if rec.Code != wantCode {
				r.Failf("wrong-rejection-status", "route /%s: rejected with %d, want %d", route, rec.Code, wantCode)
				return
			}
		}
	}
	if admitted > 0 && rejected > 0 {
		r.NonTrivial()
	}
}
