//go:build verif

package syncx

import (
	"errors"
	"fmt"
	"io"
	"testing"
	"time"

	"github.com/anishathalye/porcupine"
	"github.com/gotid/god/internal/zsim"
	"github.com/gotid/god/lib/timex"
)

// C18 - synchronisation primitives keep their exclusion and sharing
// contracts. Real: all of lib/syncx (instrumented). One mini-simulation per
// primitive (chosen by the first draw of the ops tape), 2-4 tasks.

type c18Op struct {
	client   int
	in, out  any
	call, rt int64
}

type c18Hist struct {
	prim  string
	ops   []c18Op
	model porcupine.Model
}

func TestZsimC18(t *testing.T) {
	zsim.Main(t, zsim.Harness{
		Property: "C18", Name: "syncx",
		Run:             c18Run,
		Post:            c18Post,
		Horizon:         time.Hour,
		MaxSteps:        40000,
		SpinIsViolation: true,
		Rule:            "one primitive per run (SingleFlight, LockedCalls, Barrier, Limit, TimeoutLimit, Pool, RefResource, ResourceManager, ManagedResource, OnceGuard, SpinLock, DoneChan) driven by 2-4 tasks with drawn operation scripts; histories stamped with the global event sequence number; sequential-specification primitives are checked with porcupine after the run, the others with interval/invariant oracles; non-trivial = at least two operations of different tasks overlapped; distinct = distinct event-log fingerprint",
		Real:            []string{"lib/syncx (all primitives, instrumented)", "lib/timex"},
		Stub:            []string{"client tasks and their callbacks (fetch / create / destroy / clean functions)"},
	})
}

var c18Prims = []string{"singleflight", "lockedcalls", "barrier", "limit", "timeoutlimit", "pool", "refresource", "resourcemanager", "managedresource", "onceguard", "spinlock", "donechan"}

// overlap tracking for the non-triviality rule
type c18Ov struct {
	r      *zsim.Run
	active int
}

func (o *c18Ov) in() {
	o.active++
	if o.active > 1 {
		o.r.NonTrivial()
	}
}
func (o *c18Ov) out() { o.active-- }

func c18Run(r *zsim.Run) {
	timex.ZsimReset()
	prim := c18Prims[r.Ops.Intn(len(c18Prims))]
	if r.Fault.Intn(4) == 3 {
		r.StallOdds = 200
		r.StallUnit = time.Millisecond
	}
	r.Logf("primitive %s", prim)
	r.Probe("prim_" + prim)
	switch prim {
	case "singleflight":
		c18SingleFlight(r)
	case "lockedcalls":
		c18Locked(r, false)
	case "barrier":
		c18Locked(r, true)
	case "limit":
		c18Limit(r, false)
	case "timeoutlimit":
		c18Limit(r, true)
	case "pool":
		c18Pool(r)
	case "refresource":
		c18Ref(r)
	case "resourcemanager":
		c18ResMgr(r)
	case "managedresource":
		c18Managed(r)
	case "onceguard":
		c18Once(r)
	case "spinlock":
		c18Spin(r)
	case "donechan":
		c18Done(r)
	}
}

// runs n client tasks and waits for them
func c18Clients(r *zsim.Run, n int, body func(c int)) bool {
	done := 0
	for c := 0; c < n; c++ {
		c := c
		r.Go(fmt.Sprintf("client%d", c), func() {
			defer func() { done++ }()
			body(c)
		})
	}
	if !r.WaitFor(30*time.Minute, 10*time.Millisecond, func() bool { return done == n }) {
		r.Failf("clients-blocked", "client tasks are blocked inside the primitive for 30 virtual minutes: %v", r.Alive(false))
		return false
	}
	return true
}

func c18Pause(r *zsim.Run) {
	switch r.Ops.Intn(5) {
	case 1:
		zsim.Yield("pause")
	case 2:
		zsim.Sleep(time.Millisecond)
	case 3:
		zsim.Sleep(time.Duration(1+r.Ops.Intn(20)) * time.Millisecond)
	}
}

func c18Post(r *zsim.Run) {
	h, ok := r.Data.(*c18Hist)
	if !ok || h == nil || len(h.ops) == 0 {
		return
	}
	var ops []porcupine.Operation
	for _, o := range h.ops {
		ops = append(ops, porcupine.Operation{ClientId: o.client, Input: o.in, Call: o.call, Output: o.out, Return: o.rt})
	}
	switch porcupine.CheckOperationsTimeout(h.model, ops, 5*time.Second) {
	case porcupine.Illegal:
		r.Failf(h.prim+"-not-linearizable", "the recorded history of %d %s operations is not linearizable with respect to its sequential specification: %v", len(ops), h.prim, c18Fmt(h.ops))
	case porcupine.Unknown:
		r.Inconclusive()
	}
}

func c18Fmt(ops []c18Op) string {
	s := ""
	for _, o := range ops {
		s += fmt.Sprintf("[c%d %v->%v @%d..%d] ", o.client, o.in, o.out, o.call, o.rt)
	}
	return s
}

// ---- SingleFlight ------------------------------------------------------

type c18Exec struct {
	owner    *c18Call
	key      string
	beg, end int64
	val      int
}

type c18Call struct {
	key      string
	inv, ret int64
	val      any
	err      error
	fresh    bool
	ex       bool // DoEx
	own      *c18Exec
	src      *c18Exec // the execution that produced this call's result
}

func c18SingleFlight(r *zsim.Run) {
	o := r.Ops
	g := NewSingleFlight()
	nclients := 2 + o.Intn(3)
	keys := []string{"k1", "k2"}
	var execs []*c18Exec
	var calls []*c18Call
	running := map[string]int{}
	ov := &c18Ov{r: r}
	nextVal := 0
	ok := c18Clients(r, nclients, func(c int) {
		for i := 0; i < 1+o.Intn(4); i++ {
			key := keys[o.Intn(len(keys))]
			if o.Intn(3) > 0 {
				key = "k1"
			}
			call := &c18Call{key: key, ex: o.Intn(2) == 0}
			calls = append(calls, call)
			fn := func() (any, error) {
				running[key]++
				if running[key] > 1 {
					r.Failf("singleflight-overlapping-executions", "two executions for key %s run at the same time", key)
				}
				nextVal++
				e := &c18Exec{owner: call, key: key, beg: r.Seq(), val: nextVal}
				execs = append(execs, e)
				call.own = e
				c18Pause(r)
				e.end = r.Seq()
				running[key]--
				if e.val%5 == 0 {
					return nil, fmt.Errorf("err-%d", e.val)
				}
				return e.val, nil
			}
			ov.in()
			call.inv = r.Seq()
			if call.ex {
				call.val, call.fresh, call.err = g.DoEx(key, fn)
			} else {
				call.val, call.err = g.Do(key, fn)
			}
			call.ret = r.Seq()
			ov.out()
			r.Logf("c%d Do(%s) -> %v %v fresh=%v", c, key, call.val, call.err, call.fresh)
			c18Pause(r)
		}
	})
	if !ok || r.Failed() {
		return
	}
	resolve := func(c *c18Call) *c18Exec {
		var src *c18Exec
		for _, e := range execs {
			want := any(e.val)
			var werr string
			if e.val%5 == 0 {
				want, werr = nil, fmt.Sprintf("err-%d", e.val)
			}
			got := ""
			if c.err != nil {
				got = c.err.Error()
			}
			if e.key == c.key && c.val == want && got == werr {
				src = e
			}
		}
		return src
	}
	for _, c := range calls {
		c.src = resolve(c)
	}
	for _, c := range calls {
		// the result must come from one execution that overlaps the call
		src := c.src
		if src == nil {
			r.Failf("singleflight-foreign-result", "call Do(%s) returned (%v,%v), which no execution of that key produced", c.key, c.val, c.err)
			return
		}
		// once any call served by an execution has returned, a call invoked later must not be served by it
		for _, d := range calls {
			if d != c && d.key == c.key && d.src == src && d.ret != 0 && d.ret < c.inv {
				r.Failf("singleflight-stale-result", "call Do(%s) invoked at seq %d was served by an execution whose result an earlier call had already returned at seq %d: a later call must execute afresh", c.key, c.inv, d.ret)
				return
			}
		}
		if src.owner.ret < c.inv {
			r.Failf("singleflight-stale-result", "call Do(%s) invoked at seq %d was served by the execution of a call that had already returned at seq %d: a later call must execute afresh", c.key, c.inv, src.owner.ret)
			return
		}
		if src.beg > c.ret {
			r.Failf("singleflight-foreign-result", "call Do(%s) [%d..%d] got the result of an execution that started later (%d)", c.key, c.inv, c.ret, src.beg)
			return
		}
		if c.ex && c.fresh != (c.own == src) {
			r.Failf("singleflight-fresh-flag", "DoEx(%s) reported fresh=%v but it %s the execution that produced its result", c.key, c.fresh, map[bool]string{true: "ran", false: "did not run"}[c.own == src])
			return
		}
		// no other call of this key in progress when invoked => executes itself
		alone := true
		for _, d := range calls {
			if d != c && d.key == c.key && !(d.ret < c.inv || d.inv > c.ret) {
				alone = false
			}
		}
		if alone && c.own != src {
			r.Failf("singleflight-stale-result", "call Do(%s) [%d..%d] overlapped no other call of the key, yet it did not execute its own function", c.key, c.inv, c.ret)
			return
		}
	}
}

// ---- LockedCalls / Barrier ---------------------------------------------

func c18Locked(r *zsim.Run, barrier bool) {
	o := r.Ops
	lc := NewLockedCalls()
	var b Barrier
	nclients := 2 + o.Intn(3)
	inside := map[string]int{}
	ov := &c18Ov{r: r}
	c18Clients(r, nclients, func(c int) {
		for i := 0; i < 1+o.Intn(4); i++ {
			key := zsim.Pick(o, "k1", "k1", "k2")
			ran := false
			body := func() {
				ran = true
				inside[key]++
				if inside[key] > 1 {
					if barrier {
						r.Failf("barrier-bodies-overlap", "two Guard bodies run at the same time")
					} else {
						r.Failf("lockedcalls-bodies-overlap", "two bodies of key %s run at the same time", key)
					}
				}
				c18Pause(r)
				inside[key]--
			}
			ov.in()
			if barrier {
				key = "barrier"
				b.Guard(body)
			} else {
				want := c*100 + i
				boom := o.Intn(5) == 4
				var v any
				var err error
				var panicked any
				func() {
					defer func() { panicked = recover() }()
					v, err = lc.Do(key, func() (any, error) {
						body()
						if boom {
							panic("locked-call-panic") // recovered by the caller: the key must be free again afterwards
						}
						return want, nil
					})
				}()
				if boom != (panicked != nil) {
					r.Failf("lockedcalls-foreign-result", "Do(%s): the function panicked=%v but the caller saw panic=%v", key, boom, panicked)
				}
				if !boom && (err != nil || v != any(want)) {
					r.Failf("lockedcalls-foreign-result", "Do(%s) returned (%v,%v) instead of its own function's result %d", key, v, err, want)
				}
			}
			ov.out()
			if !ran {
				r.Failf("body-not-executed", "call %d of client %d returned without executing its body", i, c)
			}
			r.Logf("c%d done %s", c, key)
			c18Pause(r)
		}
	})
}

// ---- Limit / TimeoutLimit ----------------------------------------------

type c18LimitIn struct {
	op string // borrow, try, return, tborrow
}

func c18Limit(r *zsim.Run, timed bool) {
	o := r.Ops
	n := 1 + o.Intn(3)
	l := NewLimit(n)
	tl := NewTimeoutLimit(n)
	h := &c18Hist{prim: map[bool]string{false: "limit", true: "timeoutlimit"}[timed]}
	h.model = porcupine.Model{
		Init: func() interface{} { return 0 },
		Step: func(state, input, output interface{}) (bool, interface{}) {
			k := state.(int)
			switch input.(string) {
			case "borrow":
				return k < n, k + 1
			case "tborrow":
				if output.(string) == "timeout" {
					return true, k
				}
				return k < n, k + 1
			case "try":
				if output.(bool) {
					return k < n, k + 1
				}
				return k == n, k
			default: // return
				if output.(string) == "ok" {
					return k > 0, k - 1
				}
				return k == 0, k
			}
		},
	}
	r.Data = h
	ov := &c18Ov{r: r}
	rec := func(c int, in string, out any, call int64) {
		h.ops = append(h.ops, c18Op{client: c, in: in, out: out, call: call, rt: r.Seq()})
		r.Logf("c%d %s -> %v", c, in, out)
	}
	c18Clients(r, 2+o.Intn(3), func(c int) {
		for i := 0; i < 1+o.Intn(4) && !r.Failed(); i++ {
			borrowed := false
			ov.in()
			call := r.Seq()
			switch {
			case timed && o.Intn(3) > 0:
				to := time.Duration(1+o.Intn(30)) * time.Millisecond
				t0 := r.Now()
				err := tl.Borrow(to)
				if err == nil {
					borrowed = true
					rec(c, "tborrow", "ok", call)
				} else {
					rec(c, "tborrow", "timeout", call)
					if el := r.Now() - t0; el < to {
						r.Failf("timeoutlimit-early-timeout", "Borrow(%v) reported %v after only %v", to, err, el)
					}
					if !errors.Is(err, ErrTimeout) {
						r.Failf("timeoutlimit-wrong-error", "Borrow returned %v", err)
					}
				}
			case o.Intn(2) == 0:
				if timed {
					borrowed = tl.TryBorrow()
				} else {
					borrowed = l.TryBorrow()
				}
				rec(c, "try", borrowed, call)
			case !timed:
				l.Borrow()
				borrowed = true
				rec(c, "borrow", "ok", call)
			default:
				borrowed = tl.TryBorrow()
				rec(c, "try", borrowed, call)
			}
			ov.out()
			c18Pause(r)
			extra := o.Intn(6) == 5
			for k := 0; k < 2; k++ {
				if k == 0 && !borrowed || k == 1 && !extra {
					continue
				}
				ov.in()
				call := r.Seq()
				var err error
				if timed {
					err = tl.Return()
				} else {
					err = l.Return()
				}
				if err == nil {
					rec(c, "return", "ok", call)
				} else {
					rec(c, "return", "error", call)
					if !errors.Is(err, ErrLimitReturn) {
						r.Failf("limit-wrong-error", "Return returned %v", err)
					}
				}
				ov.out()
			}
		}
	})
}

// ---- Pool ---------------------------------------------------------------

func c18Pool(r *zsim.Run) {
	o := r.Ops
	limit := 1 + o.Intn(3)
	maxAge := zsim.Pick(o, time.Duration(0), 10*time.Millisecond, 50*time.Millisecond)
	live := 0
	nextID := 0
	holders := map[int]int{}
	putAt := map[int]time.Duration{}
	destroyed := map[int]bool{}
	var opts []PoolOption
	if maxAge > 0 {
		opts = append(opts, WithMaxAge(maxAge))
	}
	p := NewPool(limit, func() any {
		nextID++
		live++
		if live > limit {
			r.Failf("pool-limit-exceeded", "%d live resources with a limit of %d", live, limit)
		}
		return nextID
	}, func(x any) {
		// destroying takes a while; the resource is live until it is done
		c18Pause(r)
		live--
		destroyed[x.(int)] = true
	}, opts...)
	ov := &c18Ov{r: r}
	c18Clients(r, 2+o.Intn(3), func(c int) {
		for i := 0; i < 1+o.Intn(4) && !r.Failed(); i++ {
			ov.in()
			x := p.Get().(int)
			ov.out()
			holders[x]++
			r.Logf("c%d got %d", c, x)
			if holders[x] > 1 {
				r.Failf("pool-resource-shared", "resource %d was handed to two holders", x)
				return
			}
			if destroyed[x] {
				r.Failf("pool-destroyed-resource-reused", "resource %d was destroyed and handed out again", x)
				return
			}
			if at, ok := putAt[x]; ok && maxAge > 0 && r.Now()-at > maxAge {
				r.Failf("pool-stale-resource-reused", "resource %d had been idle for %v (max age %v) and was handed out instead of destroyed", x, r.Now()-at, maxAge)
				return
			}
			c18Pause(r)
			holders[x]--
			ov.in()
			p.Put(x)
			ov.out()
			putAt[x] = r.Now() // taken after Put returned: never earlier than the pool's own time stamp
			if o.Intn(4) == 0 {
				zsim.Sleep(time.Duration(o.Intn(80)) * time.Millisecond)
			}
		}
	})
}

// ---- RefResource --------------------------------------------------------

func c18Ref(r *zsim.Run) {
	o := r.Ops
	cleans := 0
	res := NewRefResource(func() { cleans++ })
	h := &c18Hist{prim: "refresource"}
	type st struct {
		ref     int
		cleaned bool
	}
	h.model = porcupine.Model{
		Init: func() interface{} { return st{} },
		Step: func(state, input, output interface{}) (bool, interface{}) {
			s := state.(st)
			if input.(string) == "use" {
				if s.cleaned {
					return output.(string) == "cleaned", s
				}
				s.ref++
				return output.(string) == "ok", s
			}
			if s.cleaned {
				return output.(string) == "noclean", s
			}
			s.ref--
			if s.ref == 0 {
				s.cleaned = true
				return output.(string) == "clean", s
			}
			return output.(string) == "noclean", s
		},
	}
	r.Data = h
	ov := &c18Ov{r: r}
	c18Clients(r, 2+o.Intn(3), func(c int) {
		for i := 0; i < 1+o.Intn(3) && !r.Failed(); i++ {
			ov.in()
			call := r.Seq()
			err := res.Use()
			out := "ok"
			if err != nil {
				out = "cleaned"
				if !errors.Is(err, ErrUseOfCleaned) {
					r.Failf("refresource-wrong-error", "Use returned %v", err)
				}
			}
			h.ops = append(h.ops, c18Op{client: c, in: "use", out: out, call: call, rt: r.Seq()})
			ov.out()
			r.Logf("c%d use -> %s", c, out)
			if err != nil {
				continue
			}
			c18Pause(r)
			ov.in()
			call = r.Seq()
			before := cleans
			res.Clean()
			out = "noclean"
			if cleans != before {
				out = "clean"
			}
			h.ops = append(h.ops, c18Op{client: c, in: "clean", out: out, call: call, rt: r.Seq()})
			ov.out()
			r.Logf("c%d clean -> %s", c, out)
			c18Pause(r)
		}
	})
	if cleans > 1 {
		r.Failf("refresource-cleaned-twice", "the clean function ran %d times", cleans)
	}
}

// ---- ResourceManager ----------------------------------------------------

type c18Closer struct {
	id     int
	closed *map[int]int
	slow   func() // closing takes a while
}

func (c c18Closer) Close() error {
	if c.slow != nil {
		c.slow()
	}
	(*c.closed)[c.id]++
	if c.id%3 == 0 {
		return fmt.Errorf("close of resource %d failed", c.id) // Close goes on with the others and reports it
	}
	return nil
}

func c18ResMgr(r *zsim.Run) {
	o := r.Ops
	m := NewResourceManager()
	created := map[string][]int{}
	closed := map[int]int{}
	nextID := 0
	got := map[string]map[int]bool{}
	ov := &c18Ov{r: r}
	// in some runs Close arrives while Gets are still being made (a Get that loses that race is refused - the
	// manager must not be used after Close - but whatever a Get hands out, Close closes)
	closeEarly := o.Intn(3) == 0
	closeDone := false
	if closeEarly {
		r.Go("closer", func() {
			c18Pause(r)
			c18Pause(r)
			m.Close()
			closeDone = true
		})
	}
	c18Clients(r, 2+o.Intn(3), func(c int) {
		for i := 0; i < 1+o.Intn(3) && !r.Failed(); i++ {
			key := zsim.Pick(o, "a", "a", "b")
			if closeEarly {
				key = zsim.Pick(o, "a", "b", "c", "d")
			}
			fail := o.Intn(5) == 4
			ov.in()
			var res io.Closer
			var err error
			func() {
				defer func() {
					if p := recover(); p != nil {
						if !closeEarly {
							panic(p)
						}
						err = fmt.Errorf("refused after Close: %v", p)
					}
				}()
				res, err = m.Get(key, func() (io.Closer, error) {
					c18Pause(r)
					if fail {
						return nil, errors.New("create-failed")
					}
					nextID++
					created[key] = append(created[key], nextID)
					return c18Closer{nextID, &closed, func() { c18Pause(r) }}, nil
				})
			}()
			ov.out()
			if err == nil {
				r.Logf("c%d get %s -> resource %d", c, key, res.(c18Closer).id)
			} else {
				r.Logf("c%d get %s -> %v", c, key, err)
			}
			if err == nil {
				if got[key] == nil {
					got[key] = map[int]bool{}
				}
				got[key][res.(c18Closer).id] = true
			}
			c18Pause(r)
		}
	})
	if r.Failed() {
		return
	}
	for k, ids := range created {
		// (after Close a Get may still run its create function before it is refused; that resource is never handed out)
		if len(ids) > 1 && !closeEarly {
			r.Failf("resourcemanager-created-twice", "key %s: create succeeded %d times (resources %v)", k, len(ids), ids)
			return
		}
	}
	for k, ids := range got {
		if len(ids) > 1 {
			r.Failf("resourcemanager-different-resources", "key %s: callers received different resources %v", k, ids)
			return
		}
	}
	if closeEarly {
		if !r.WaitFor(time.Minute, time.Millisecond, func() bool { return closeDone }) {
			r.Failf("resourcemanager-close", "Close did not return: %v", r.Alive(false))
			return
		}
		for k, ids := range got {
			for id := range ids {
				if closed[id] != 1 {
					r.Failf("resourcemanager-close", "Get(%s) handed out resource %d while Close was under way; Close has returned and the resource was closed %d times (want once)", k, id, closed[id])
					return
				}
			}
		}
		return
	}
	cerr := m.Close()
	failing := 0
	for _, ids := range created {
		for _, id := range ids {
			if id%3 == 0 {
				failing++
			}
			if closed[id] != 1 {
				r.Failf("resourcemanager-close", "resource %d was closed %d times by Close (Close returned %v)", id, closed[id], cerr)
				return
			}
		}
	}
	if (failing > 0) != (cerr != nil) {
		r.Failf("resourcemanager-close", "%d resources failed to close but Close returned %v", failing, cerr)
	}
}

// ---- ManagedResource ----------------------------------------------------

func c18Managed(r *zsim.Run) {
	o := r.Ops
	gen := 0
	mr := NewManagedResource(func() any { gen++; return gen }, func(a, b any) bool { return a == b })
	h := &c18Hist{prim: "managedresource"}
	type st struct{ cur, max int }
	h.model = porcupine.Model{
		Init: func() interface{} { return st{} },
		Step: func(state, input, output interface{}) (bool, interface{}) {
			s := state.(st)
			if in, ok := input.(int); ok { // MarkBroken(in)
				if in == s.cur {
					s.cur = 0
				}
				return true, s
			}
			out := output.(int)
			if s.cur != 0 {
				return out == s.cur, s
			}
			s.max++
			s.cur = s.max
			return out == s.cur, s
		},
	}
	r.Data = h
	ov := &c18Ov{r: r}
	c18Clients(r, 2+o.Intn(3), func(c int) {
		for i := 0; i < 1+o.Intn(4); i++ {
			ov.in()
			call := r.Seq()
			x := mr.Take().(int)
			h.ops = append(h.ops, c18Op{client: c, in: "take", out: x, call: call, rt: r.Seq()})
			ov.out()
			r.Logf("c%d take -> %d", c, x)
			c18Pause(r)
			if o.Intn(2) == 0 {
				ov.in()
				call := r.Seq()
				mr.MarkBroken(x)
				h.ops = append(h.ops, c18Op{client: c, in: x, out: 0, call: call, rt: r.Seq()})
				ov.out()
				r.Logf("c%d broken %d", c, x)
			}
		}
	})
}

// ---- OnceGuard ----------------------------------------------------------

func c18Once(r *zsim.Run) {
	o := r.Ops
	var og OnceGuard
	h := &c18Hist{prim: "onceguard"}
	h.model = porcupine.Model{
		Init: func() interface{} { return false },
		Step: func(state, input, output interface{}) (bool, interface{}) {
			taken := state.(bool)
			if input.(string) == "take" {
				return output.(bool) == !taken, true
			}
			return output.(bool) == taken, taken
		},
	}
	r.Data = h
	ov := &c18Ov{r: r}
	c18Clients(r, 2+o.Intn(3), func(c int) {
		for i := 0; i < 1+o.Intn(3); i++ {
			in := zsim.Pick(o, "take", "taken")
			ov.in()
			call := r.Seq()
			var out bool
			if in == "take" {
				out = og.Take()
			} else {
				out = og.Taken()
			}
			h.ops = append(h.ops, c18Op{client: c, in: in, out: out, call: call, rt: r.Seq()})
			ov.out()
			r.Logf("c%d %s -> %v", c, in, out)
			c18Pause(r)
		}
	})
}

// ---- SpinLock -----------------------------------------------------------

func c18Spin(r *zsim.Run) {
	o := r.Ops
	var sl SpinLock
	inside := 0
	ov := &c18Ov{r: r}
	c18Clients(r, 2+o.Intn(3), func(c int) {
		for i := 0; i < 1+o.Intn(3) && !r.Failed(); i++ {
			ov.in()
			got := true
			if o.Intn(3) == 0 {
				got = sl.TryLock()
				if !got && inside == 0 {
					// TryLock may only fail while somebody holds the lock; holders
					// set `inside` right after acquiring, so look again after a yield
					r.Probe("trylock_failed")
				}
			} else {
				sl.Lock()
			}
			ov.out()
			if !got {
				continue
			}
			inside++
			if inside > 1 {
				r.Failf("spinlock-not-exclusive", "two tasks hold the spin lock")
				return
			}
			c18Pause(r)
			inside--
			sl.Unlock()
			r.Logf("c%d critical section done", c)
		}
	})
}

// ---- DoneChan -----------------------------------------------------------

func c18Done(r *zsim.Run) {
	o := r.Ops
	dc := NewDoneChan()
	closedRet := int64(0)
	ov := &c18Ov{r: r}
	c18Clients(r, 2+o.Intn(3), func(c int) {
		if c == 0 || o.Intn(2) == 0 {
			c18Pause(r)
			ov.in()
			dc.Close()
			ov.out()
			if closedRet == 0 {
				closedRet = r.Seq()
			}
			select {
			case <-dc.Done():
			default:
				r.Failf("donechan-not-closed", "Done() is still open after Close returned")
			}
			r.Logf("c%d closed", c)
			return
		}
		ov.in()
		_, ok := zsim.Recv2(dc.Done())
		ov.out()
		if ok {
			r.Failf("donechan-value", "Done() delivered a value")
		}
		if closedRet == 0 {
			// woken although no Close has returned yet: fine only if one is in progress
			r.Probe("woken_during_close")
		}
		r.Logf("c%d woke", c)
	})
	// make sure waiters are released at the end
	dc.Close()
	dc.Close()
}
