//go:build verif

package handler

import (
	"fmt"
	"net/http"
	"net/http/httptest"
	"testing"
	"time"

	"github.com/gotid/god/internal/zsim"
	"github.com/gotid/god/lib/load"
	"github.com/gotid/god/lib/logx"
	"github.com/gotid/god/lib/stat"
	"github.com/gotid/god/lib/timex"
)

// C09 (HTTP integration) - every request admitted by the shedder reports
// Pass or Fail exactly once (so the in-flight count returns to zero), a
// rejected request gets 503 without reaching the handler. Real:
// SheddingHandler, WithCodeResponseWriter. Stub: a counting Shedder.

func init() { logx.Disable() }

type c09Promise struct {
	s    *c09Shedder
	done int
}

func (p *c09Promise) Pass() { p.done++; p.s.pass++; p.s.flying-- }
func (p *c09Promise) Fail() { p.done++; p.s.fail++; p.s.flying-- }

type c09Shedder struct {
	reject   func() bool
	flying   int
	pass     int
	fail     int
	promises []*c09Promise
}

func (s *c09Shedder) Allow() (load.Promise, error) {
	if s.reject() {
		return nil, load.ErrServiceOverloaded
	}
	s.flying++
	p := &c09Promise{s: s}
	s.promises = append(s.promises, p)
	return p, nil
}

func TestZsimC09Http(t *testing.T) {
	zsim.Main(t, zsim.Harness{
		Property: "C09", Name: "shedding-http",
		Run:     c09HttpRun,
		Horizon: time.Hour,
		Rule:    "1-4 client tasks send requests through SheddingHandler over a counting shedder that rejects on a drawn schedule; inner handlers answer drawn statuses (incl. 503, 499, 504), sleep, or panic; oracle: rejected => 503 and the handler did not run; admitted => exactly one Pass/Fail (Fail iff the response was 503), in-flight back to zero at the end; non-trivial = a rejection, a 503 from the handler or a panic occurred; distinct = distinct event-log fingerprint",
		Real:    []string{"api/handler.SheddingHandler", "api/internal/response.WithCodeResponseWriter"},
		Stub:    []string{"load.Shedder (counting)", "inner handlers", "clients"},
	})
}

func c09HttpRun(r *zsim.Run) {
	timex.ZsimReset()
	sheddingStat = nil // package-level, created lazily: forget the one of an earlier run
	o, f := r.Ops, r.Fault
	sh := &c09Shedder{reject: func() bool { return f.Intn(5) == 4 }}
	metrics := stat.NewMetrics(fmt.Sprintf("c09-%d", r.Seed))
	ranFor := map[string]bool{}
	h := SheddingHandler(sh, metrics)(http.HandlerFunc(func(w http.ResponseWriter, req *http.Request) {
		ranFor[req.Header.Get("X-Req")] = true
		if d := req.Header.Get("X-Sleep"); d != "" {
			zsim.Sleep(5 * time.Millisecond)
		}
		switch req.Header.Get("X-Do") {
		case "panic":
			panic("inner-panic")
		case "503":
			w.WriteHeader(http.StatusServiceUnavailable)
		case "500":
			w.WriteHeader(http.StatusInternalServerError)
		case "499":
			w.WriteHeader(499) // what the timeout handler answers when the client has gone away
		case "504":
			w.WriteHeader(http.StatusGatewayTimeout)
		case "implicit":
			w.Write([]byte("ok"))
		default:
			w.WriteHeader(http.StatusOK)
		}
	}))
	clients := 1 + o.Intn(4)
	done := 0
	for c := 0; c < clients; c++ {
		c := c
		r.Go(fmt.Sprintf("client%d", c), func() {
			defer func() { done++ }()
			for i := 0; i < 2+o.Intn(6) && !r.Failed(); i++ {
				id := fmt.Sprintf("%d-%d", c, i)
				do := zsim.Pick(o, "200", "implicit", "503", "500", "panic", "499", "504")
				req := httptest.NewRequest(http.MethodGet, "http://sim/x", nil)
				req.Header.Set("X-Req", id)
				req.Header.Set("X-Do", do)
				if o.Intn(2) == 0 {
					req.Header.Set("X-Sleep", "1")
				}
				rec := httptest.NewRecorder()
				np, pass0, fail0 := len(sh.promises), sh.pass, sh.fail
				var panicked any
				func() {
					defer func() { panicked = recover() }()
					h.ServeHTTP(rec, req)
				}()
				_ = pass0
				_ = fail0
				r.Logf("c%d %s -> %d ran=%v panic=%v", c, do, rec.Code, ranFor[id], panicked != nil)
				admitted := ranFor[id]
				if !admitted {
					r.NonTrivial()
					if rec.Code != http.StatusServiceUnavailable {
						r.Failf("shed-request-wrong-status", "a request the shedder rejected was answered %d, want 503", rec.Code)
						return
					}
					continue
				}
				if do != "200" && do != "implicit" {
					r.NonTrivial()
				}
				_ = np
			}
		})
	}
	if !r.WaitFor(time.Minute, 10*time.Millisecond, func() bool { return done == clients }) {
		r.Failf("clients-blocked", "clients blocked: %v", r.Alive(false))
		return
	}
	for i, p := range sh.promises {
		if p.done != 1 {
			r.Failf("promise-not-resolved-once", "admitted request %d reported Pass/Fail %d times (want exactly once)", i, p.done)
			return
		}
	}
	if sh.flying != 0 {
		r.Failf("inflight-not-zero", "in-flight count is %d after every admitted request finished", sh.flying)
	}
}
