//go:build verif

package collection

import (
	"fmt"
	"sort"
	"testing"
	"time"

	"github.com/gotid/god/internal/zsim"
	"github.com/gotid/god/lib/timex"
)

// C09 (window half) - a reduction over a rolling window observes exactly the
// values added during the last `size` bucket intervals. Real: RollingWindow,
// timex. Stub: adders/reducers and the clock.

type c09Add struct {
	at, end  time.Duration // clock at entry and at exit (they differ only when the task was stalled inside the call)
	v        int
	inv, ret int64
}

type c09Red struct {
	ats      []time.Duration // clock readings between entry and exit: the window is taken at one of them
	sum      int
	count    int64
	inv, ret int64
}

func TestZsimC09(t *testing.T) {
	zsim.Main(t, zsim.Harness{
		Property: "C09", Name: "rollingwindow",
		Run:     c09Run,
		Horizon: 24 * time.Hour,
		Rule:    "window size 1..8, interval 10ms/250ms/1s, IgnoreCurrentBucket on/off; histories of Add(integral value)/Reduce by 1-3 tasks separated by advances that are sub-bucket, exactly k intervals, multi-bucket and multi-window; oracle = one bucket phase must explain every Reduce exactly; non-trivial = a Reduce ran after at least one value had aged out of the window; distinct = distinct event-log fingerprint",
		Real:    []string{"lib/collection.RollingWindow", "lib/timex"},
		Stub:    []string{"adder / reducer tasks", "simulated clock advances"},
	})
}

func c09Run(r *zsim.Run) {
	timex.ZsimReset()
	o := r.Ops
	size := 1 + o.Intn(8)
	interval := zsim.Pick(o, 250*time.Millisecond, 10*time.Millisecond, time.Second)
	ignore := o.Intn(2) == 1
	// creation at an arbitrary phase of the clock
	zsim.Sleep(time.Duration(o.Intn(int(interval/time.Microsecond))) * time.Microsecond)
	var opts []RollingWindowOption
	if ignore {
		opts = append(opts, IgnoreCurrentBucket())
	}
	w := NewRollingWindow(size, interval, opts...)
	created := r.Now()
	r.Logf("window size=%d interval=%v ignore=%v created=%v", size, interval, ignore, created)
	var adds []c09Add
	var reds []c09Red
	if o.Intn(3) == 0 {
		// tasks may be held at scheduling points, also inside a Reduce callback, long enough to cross buckets
		r.StallOdds = zsim.Pick(o, 6, 20)
		r.StallUnit = interval / 4
	}
	tasks := 1 + o.Intn(3)
	done := 0
	for t := 0; t < tasks; t++ {
		t := t
		n := 3 + o.Intn(12)
		r.Go(fmt.Sprintf("client%d", t), func() {
			defer func() { done++ }()
			for i := 0; i < n; i++ {
				switch o.Intn(8) {
				case 0:
					zsim.Sleep(time.Duration(1+o.Intn(int(interval/time.Microsecond))) * time.Microsecond)
				case 1:
					zsim.Sleep(time.Duration(1+o.Intn(size+2)) * interval)
				case 2:
					zsim.Sleep(time.Duration(size+1+o.Intn(3*size+1))*interval + time.Duration(o.Intn(1000))*time.Microsecond)
				case 3:
					// land exactly on a bucket boundary of the creation phase
					el := r.Now() - created
					zsim.Sleep(interval - el%interval)
				}
				if o.Intn(3) == 0 {
					var sum float64
					var count int64
					ats := []time.Duration{r.Now()}
					inv := r.Seq()
					calls := 0
					w.Reduce(func(b *Bucket) {
						// the first callback runs at the clock reading the window was taken at (a stall while
						// waiting for the lock moves it away from the entry reading)
						if now := r.Now(); calls == 0 && now != ats[len(ats)-1] {
							ats = append(ats, now)
						}
						calls++
						// the callback is user code: it may be pre-empted
						zsim.Yield("reduce-callback")
						sum += b.Sum
						count += b.Count
					})
					if now := r.Now(); now != ats[len(ats)-1] {
						if calls == 0 {
							// stalled, and no callback tells when the window was taken: nothing to compare this result with
							r.Inconclusive()
							continue
						}
					}
					reds = append(reds, c09Red{ats, int(sum), count, inv, r.Seq()})
					r.Logf("c%d reduce -> sum %v count %d", t, sum, count)
				} else {
					v := 1 + o.Intn(9)
					at := r.Now()
					inv := r.Seq()
					w.Add(float64(v))
					adds = append(adds, c09Add{at, r.Now(), v, inv, r.Seq()})
					r.Logf("c%d add %d", t, v)
				}
			}
		})
	}
	if !r.WaitFor(20*time.Hour, time.Second, func() bool { return done == tasks }) {
		r.Failf("clients-blocked", "clients blocked: %v", r.Alive(false))
		return
	}
	if r.Failed() || len(reds) == 0 {
		return
	}
	// candidate phases: every event time modulo the interval, and points in between
	set := map[time.Duration]bool{0: true, created % interval: true}
	for _, a := range adds {
		set[a.at%interval] = true
		set[a.end%interval] = true
	}
	for _, d := range reds {
		for _, at := range d.ats {
			set[at%interval] = true
		}
	}
	var ph []time.Duration
	for p := range set {
		ph = append(ph, p)
	}
	sort.Slice(ph, func(i, j int) bool { return ph[i] < ph[j] })
	cands := append([]time.Duration{}, ph...)
	for i := range ph {
		next := interval
		if i+1 < len(ph) {
			next = ph[i+1]
		}
		if next-ph[i] > 1 {
			cands = append(cands, ph[i]+(next-ph[i])/2)
		}
	}
	bucket := func(x, phase time.Duration) int64 {
		d := x - phase
		if d >= 0 {
			return int64(d / interval)
		}
		return -int64((-d + interval - 1) / interval) // floor for negatives
	}
	aged := false
	var firstBad string
	for _, phase := range cands {
		ok := true
		for _, d := range reds {
			match := false
			var sum int
			var count int64
			var open []c09Add
			for _, dat := range d.ats {
				bt := bucket(dat, phase)
				sum, count, open = 0, 0, nil // open: adds that may or may not be seen (overlapping call, or stalled across a bucket boundary)
				for _, a := range adds {
					if a.inv > d.ret {
						continue
					}
					lo, hi := bucket(a.at, phase), bucket(a.end, phase)
					in := func(ba int64) bool { return ba > bt-int64(size) && ba <= bt && !(ignore && ba == bt) }
					all, any := true, false
					for ba := lo; ba <= hi; ba++ {
						if in(ba) {
							any = true
						} else {
							all = false
						}
					}
					switch {
					case all && a.ret < d.inv:
						sum += a.v
						count++
					case any:
						open = append(open, a)
					case hi <= bt-int64(size):
						aged = true
					}
				}
				if len(open) > 12 {
					r.Inconclusive()
					match = true
					break
				}
				for mask := 0; mask < 1<<len(open) && !match; mask++ {
					s2, c2 := sum, count
					for i, a := range open {
						if mask>>i&1 == 1 {
							s2 += a.v
							c2++
						}
					}
					if s2 == d.sum && c2 == d.count {
						match = true
					}
				}
				if match {
					break
				}
			}
			if !match {
				ok = false
				if firstBad == "" || phase == created%interval {
					firstBad = fmt.Sprintf("with the buckets aligned at phase %v the Reduce at %v should see sum %d count %d (plus any of %d overlapping adds) but saw sum %d count %d", phase, d.ats, sum, count, len(open), d.sum, d.count)
				}
				break
			}
		}
		if ok {
			if aged {
				r.NonTrivial()
			}
			return
		}
	}
	r.Failf("reduce-mismatch", "no bucket alignment explains the %d Reduce results of this history (size %d, interval %v, ignoreCurrent %v): e.g. %s", len(reds), size, interval, ignore, firstBad)
}
