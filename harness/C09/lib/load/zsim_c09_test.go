//go:build verif

package load

import (
	"fmt"
	"math"
	"testing"
	"time"

	"github.com/gotid/god/internal/zsim"
	"github.com/gotid/god/lib/logx"
	"github.com/gotid/god/lib/timex"
)

// C09 (shedder half) - the adaptive shedder never rejects below the CPU
// threshold, rejects under overload only beyond the estimated capacity, and
// its in-flight count returns to zero. Real: adaptiveShedder, RollingWindow,
// SpinLock, timex. Stub: CPU readings (package variable), callers.

func init() {
	logx.Disable()
	DisableLog()
}

func TestZsimC09(t *testing.T) {
	zsim.Main(t, zsim.Harness{
		Property: "C09", Name: "shedder",
		Run:      c09ShedRun,
		Horizon:  time.Hour,
		MaxSteps: 200000,
		Rule:     "2-8 caller tasks loop Allow -> sleep(latency) -> Pass/Fail with drawn spacing; CPU readings are scripted (periods above and below the threshold); shedder window/buckets drawn; non-trivial = at least one overloaded reading was taken; distinct = distinct event-log fingerprint",
		Real:     []string{"lib/load.adaptiveShedder", "lib/collection.RollingWindow", "lib/syncx.SpinLock / AtomicDuration / AtomicBool", "lib/timex"},
		Stub:     []string{"CPU readings (load.systemOverloadChecker)", "caller tasks and their latencies"},
	})
}

type c09Pass struct {
	at time.Duration
	rt float64 // ceil(ms)
}

func c09ShedRun(r *zsim.Run) {
	timex.ZsimReset()
	o := r.Ops
	f := r.Fault
	// (bucket lengths that divide a second, that do not - 300ms, 60ms, 70ms - and buckets longer than a second)
	window := zsim.Pick(o, time.Second, 5*time.Second, 500*time.Millisecond, 3*time.Second, 700*time.Millisecond, 15*time.Second)
	buckets := zsim.Pick(o, 10, 50, 5)
	// one run in eight: many handlers faster than a millisecond, back to back, on 10ms buckets under a CPU that is
	// overloaded throughout - hundreds of passes per bucket, so the capacity the window implies lies well above
	// the handful of callers and nothing may be shed
	fast := o.Intn(8) == 0
	fastLat, fastN := 300*time.Microsecond, 150
	if fast {
		switch o.Intn(3) {
		case 0:
			window, buckets = 500*time.Millisecond, 50
		case 1:
			// the same with callers that saturate 600ms buckets (1.67 per second) ...
			window, buckets, fastLat, fastN = 3*time.Second, 5, 100*time.Millisecond, 25
		default:
			// ... and 3s buckets (a third of a bucket per second): in-flight never exceeds the number of callers,
			// which is what the window's capacity comes to
			window, buckets, fastLat, fastN = 15*time.Second, 5, 100*time.Millisecond, 100
		}
	}
	threshold := int64(900)
	var overloadReads []time.Duration
	overloadUntil := time.Duration(-1)
	forceOverload := false
	overloadOdds := zsim.Pick(f, 12, 200, 3000)
	saved := systemOverloadChecker
	defer func() { systemOverloadChecker = saved }()
	systemOverloadChecker = func(th int64) bool {
		if th != threshold {
			r.Failf("wrong-threshold", "checker called with %d", th)
		}
		// overload comes in periods; how often is drawn per run (busy runs, and runs with long quiet stretches after an overload)
		if r.Now() > overloadUntil && f.Intn(overloadOdds) == overloadOdds-1 {
			overloadUntil = r.Now() + time.Duration(50+f.Intn(2000))*time.Millisecond
		}
		if r.Now() <= overloadUntil || forceOverload {
			overloadReads = append(overloadReads, r.Now())
			r.FaultFired("cpu-overloaded-reading")
			return true
		}
		return false
	}
	zsim.Sleep(time.Duration(o.Intn(100)) * time.Millisecond)
	sh := NewAdaptiveShedder(WithWindow(window), WithBuckets(buckets), WithCpuThreshold(threshold)).(*adaptiveShedder)
	created := r.Now()
	bucketDur := window / time.Duration(buckets)
	perSecond := float64(time.Second) / float64(bucketDur) // buckets per second, as the statement has it: not necessarily whole
	r.Logf("shedder window=%v buckets=%d created=%v", window, buckets, created)
	var passes []c09Pass
	low, high := int64(0), int64(0) // bounds on the in-flight count
	peaks := map[int]*int64{}       // per caller: the largest upper bound while its Allow is in progress
	bump := func(self int) {
		for c, p := range peaks {
			if c != self && high > *p {
				*p = high
			}
		}
	}
	maxAtCompletion := int64(0)
	// upper bound on the smoothed in-flight figure: the same moving average, fed at every completion (passed or
	// failed) with an upper bound of the in-flight count the library can see at that completion
	emaHi := 0.0
	emaPeaks := map[int]*float64{} // per caller: the largest emaHi while its Allow is in progress
	admitted, resolved, rejected := 0, 0, 0
	callers := 2 + o.Intn(7)
	if r.Tier == "thorough" && o.Intn(4) == 0 {
		callers = 9 + o.Intn(8) // the thorough tier also draws larger runs
	}
	done := 0
	capacity := func(now time.Duration) int64 {
		// reference: buckets aligned at the creation instant; the last `buckets` buckets without the current one
		cur := int64((now - created) / bucketDur)
		cnt := map[int64]float64{}
		sum := map[int64]float64{}
		for _, p := range passes {
			b := int64((p.at - created) / bucketDur)
			if b < cur && b > cur-int64(buckets) {
				cnt[b]++
				sum[b] += p.rt
			}
		}
		maxPass := 1.0
		minRt := 1000.0
		for b, c := range cnt {
			if c > maxPass {
				maxPass = c
			}
			if avg := math.Round(sum[b] / c); avg < minRt {
				minRt = avg
			}
		}
		return int64(math.Max(1, maxPass*perSecond*(minRt/1e3)))
	}
	// one request of caller c: Allow, work for lat, report; false = rejected (or the run has failed)
	request := func(c int, lat time.Duration, fail bool) bool {
		now := r.Now()
		hiBefore := high
		peaks[c] = &hiBefore
		emaPeak := emaHi
		emaPeaks[c] = &emaPeak
		high++ // upper bound: the shedder counts the request inside Allow
		bump(c)
		p, err := sh.Allow()
		delete(peaks, c)
		delete(emaPeaks, c)
		if err != nil {
			high--
		}
		if err != nil {
			rejected++
			r.Probe("rejected")
			r.Logf("c%d rejected (in-flight %d..%d)", c, low, high)
			recent := false
			for _, t := range overloadReads {
				if now-t < time.Second+time.Millisecond && t <= r.Now() {
					recent = true
				}
			}
			if !recent {
				r.Failf("rejected-without-overload", "a request was rejected at %v although no CPU reading at or above the threshold was taken during the last second", now)
				return false
			}
			cap := capacity(now)
			if hiBefore < cap || maxAtCompletion < cap {
				r.Failf("rejected-below-capacity", "a request was rejected at %v with at most %d in flight (largest in-flight seen at a completion: %d) while the capacity estimated from the window is %d", now, hiBefore, maxAtCompletion, cap)
				return false
			}
			// (half a unit of slack: overlapping completions may be applied in another order than they return; the
			// statement's "exceeds" is taken literally - the library compares the integer part, which is stricter,
			// and a change to a real-valued comparison would still satisfy the statement)
			if emaPeak+0.5 <= float64(cap) {
				r.Failf("rejected-while-smoothed-below-capacity", "a request was rejected at %v although the smoothed in-flight count can be at most %.2f (moving average over all completions, failed ones included) and the capacity estimated from the window is %d: both the current and the smoothed count must exceed it", now, emaPeak, cap)
				return false
			}
			return false
		}
		admitted++
		low++
		d := lat + time.Duration(o.Intn(5))*time.Millisecond
		if lat < time.Millisecond {
			d = lat
		}
		zsim.Sleep(d)
		low--
		if high-1 > maxAtCompletion {
			maxAtCompletion = high - 1
		}
		// the library applies this completion's step of the moving average somewhere inside Pass/Fail: a step
		// that raises the average is credited before the call, one that lowers it only after the call
		hC := float64(high - 1)
		raised := false
		if v := emaHi*flyingBeta + hC*(1-flyingBeta); v > emaHi {
			emaHi, raised = v, true
			for _, ep := range emaPeaks {
				if emaHi > *ep {
					*ep = emaHi
				}
			}
		}
		if fail {
			p.Fail()
		} else {
			passes = append(passes, c09Pass{r.Now(), math.Ceil(float64(d) / float64(time.Millisecond))})
			p.Pass()
		}
		if !raised {
			emaHi = emaHi*flyingBeta + hC*(1-flyingBeta)
		}
		high--
		resolved++
		return true
	}

	scripted := o.Intn(4) == 0 && !fast
	if fast {
		forceOverload = true
		r.Probe("fast_handlers_under_overload")
	}
	if scripted {
		// burst - drain - burst: concurrent passing requests raise the smoothed in-flight count, a long series of
		// single failing requests lets it decay, then every caller arrives at once while the CPU is overloaded
		k := callers
		lat := time.Duration(zsim.Pick(o, 50, 100, 150)) * time.Millisecond
		for c := 0; c < k; c++ {
			c := c
			r.Go(fmt.Sprintf("caller%d", c), func() {
				defer func() { done++ }()
				for i := 0; i < 3+o.Intn(4) && !r.Failed(); i++ {
					request(c, lat, false)
				}
			})
		}
		if !r.WaitFor(30*time.Minute, 10*time.Millisecond, func() bool { return done == k }) {
			r.Failf("callers-blocked", "callers blocked: %v", r.Alive(false))
			return
		}
		for i := 0; i < 10+o.Intn(40) && !r.Failed(); i++ {
			request(0, time.Duration(1+o.Intn(3))*time.Millisecond, o.Intn(8) > 0)
		}
		forceOverload = true
		done = 0
		for c := 0; c < k; c++ {
			c := c
			r.Go(fmt.Sprintf("burst%d", c), func() {
				defer func() { done++ }()
				request(c, lat, o.Intn(3) == 0)
			})
		}
		if !r.WaitFor(30*time.Minute, 10*time.Millisecond, func() bool { return done == k }) {
			r.Failf("callers-blocked", "callers blocked: %v", r.Alive(false))
			return
		}
		forceOverload = false
		r.Probe("burst_drain_burst")
		// the CPU is fine again while many slow requests are still in flight: arrivals keep coming; once the last
		// overloaded reading is a second old nothing may be shed any more
		done = 0
		for c := 0; c < k; c++ {
			c := c
			r.Go(fmt.Sprintf("slow%d", c), func() {
				defer func() { done++ }()
				request(c, 4*time.Second, false)
			})
		}
		for i := 0; i < 30 && !r.Failed(); i++ {
			zsim.Sleep(100 * time.Millisecond)
			request(k, time.Millisecond, false)
		}
		if !r.WaitFor(30*time.Minute, 10*time.Millisecond, func() bool { return done == k }) {
			r.Failf("callers-blocked", "callers blocked: %v", r.Alive(false))
			return
		}
		done = callers
	}
	for c := 0; c < callers && !scripted; c++ {
		c := c
		n := 4 + o.Intn(20)
		lat := time.Duration(zsim.Pick(o, 2, 1, 10, 40, 150)) * time.Millisecond
		if o.Intn(5) == 0 {
			lat = time.Duration(zsim.Pick(o, 300, 100, 700)) * time.Microsecond // faster than a millisecond
		}
		failOdds := zsim.Pick(o, 5, 5, 2, 1, 1000)
		if fast {
			n, lat, failOdds = fastN, fastLat, 1000
		}
		r.Go(fmt.Sprintf("caller%d", c), func() {
			defer func() { done++ }()
			for i := 0; i < n && !r.Failed(); i++ {
				if !request(c, lat, o.Intn(failOdds) == failOdds-1) {
					zsim.Sleep(time.Duration(1+o.Intn(30)) * time.Millisecond)
					continue
				}
				if fast {
					continue
				}
				if gap := zsim.Pick(o, 0, 0, 1, 5, 50, 400); gap > 0 {
					zsim.Sleep(time.Duration(gap) * time.Millisecond)
				}
			}
		})
	}
	if !r.WaitFor(30*time.Minute, 100*time.Millisecond, func() bool { return done == callers }) {
		r.Failf("callers-blocked", "callers blocked: %v", r.Alive(false))
		return
	}
	if r.Failed() {
		return
	}
	r.Logf("admitted=%d resolved=%d rejected=%d", admitted, resolved, rejected)
	if sh.flying != int64(admitted-resolved) || sh.flying != 0 {
		r.Failf("inflight-not-zero", "in-flight count is %d after %d admitted requests all reported Pass/Fail (%d)", sh.flying, admitted, resolved)
	}
}
