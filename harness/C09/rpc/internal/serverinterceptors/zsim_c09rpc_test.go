//go:build verif

package serverinterceptors

import (
	"context"
	"errors"
	"fmt"
	"testing"
	"time"

	"github.com/gotid/god/internal/zsim"
	"github.com/gotid/god/lib/load"
	"github.com/gotid/god/lib/logx"
	"github.com/gotid/god/lib/stat"
	"github.com/gotid/god/lib/timex"
	"google.golang.org/grpc"
)

// C09 (RPC integration) - as the HTTP one, for UnarySheddingInterceptor:
// every admitted call reports Pass or Fail exactly once (Fail iff the
// handler returned context.DeadlineExceeded), a rejected call returns the
// shedder's error without running the handler.

func init() { logx.Disable() }

type c09rPromise struct {
	s          *c09rShedder
	done       int
	pass, fail bool
}

func (p *c09rPromise) Pass() { p.done++; p.pass = true; p.s.flying-- }
func (p *c09rPromise) Fail() { p.done++; p.fail = true; p.s.flying-- }

type c09rShedder struct {
	reject   func() bool
	flying   int
	promises []*c09rPromise
}

func (s *c09rShedder) Allow() (load.Promise, error) {
	if s.reject() {
		return nil, load.ErrServiceOverloaded
	}
	s.flying++
	p := &c09rPromise{s: s}
	s.promises = append(s.promises, p)
	return p, nil
}

func TestZsimC09Rpc(t *testing.T) {
	zsim.Main(t, zsim.Harness{
		Property: "C09", Name: "shedding-rpc",
		Run:     c09RpcRun,
		Horizon: time.Hour,
		Rule:    "1-4 client tasks call UnarySheddingInterceptor over a counting shedder that rejects on a drawn schedule; handlers return a value, an application error, context.DeadlineExceeded, or panic; oracle: rejected => ErrServiceOverloaded without running the handler; admitted => exactly one Pass/Fail with Fail iff DeadlineExceeded; in-flight back to zero; distinct = distinct event-log fingerprint",
		Real:    []string{"rpc/internal/serverinterceptors.UnarySheddingInterceptor"},
		Stub:    []string{"load.Shedder (counting)", "handlers", "clients"},
	})
}

func c09RpcRun(r *zsim.Run) {
	timex.ZsimReset()
	sheddingStat = nil // package-level, created lazily: forget the one of an earlier run
	o, f := r.Ops, r.Fault
	sh := &c09rShedder{reject: func() bool { return f.Intn(5) == 4 }}
	in := UnarySheddingInterceptor(sh, stat.NewMetrics(fmt.Sprintf("c09r-%d", r.Seed)))
	clients := 1 + o.Intn(4)
	done := 0
	for c := 0; c < clients; c++ {
		c := c
		r.Go(fmt.Sprintf("client%d", c), func() {
			defer func() { done++ }()
			for i := 0; i < 2+o.Intn(6) && !r.Failed(); i++ {
				do := zsim.Pick(o, "ok", "apperr", "deadline", "panic")
				ran := false
				np := len(sh.promises)
				var err error
				var panicked any
				func() {
					defer func() { panicked = recover() }()
					_, err = in(context.Background(), "req", &grpc.UnaryServerInfo{FullMethod: "/c09/Call"}, func(ctx context.Context, req interface{}) (interface{}, error) {
						ran = true
						if o.Intn(2) == 0 {
							zsim.Sleep(3 * time.Millisecond)
						}
						switch do {
						case "apperr":
							return nil, errors.New("app")
						case "deadline":
							return nil, context.DeadlineExceeded
						case "panic":
							panic("inner")
						}
						return "resp", nil
					})
				}()
				r.Logf("c%d %s -> err=%v ran=%v panic=%v", c, do, err, ran, panicked != nil)
				_ = np
				if !ran {
					r.NonTrivial()
					if !errors.Is(err, load.ErrServiceOverloaded) {
						r.Failf("shed-call-wrong-error", "a call the shedder rejected returned %v", err)
						return
					}
					continue
				}
				if do != "ok" {
					r.NonTrivial()
				}
			}
		})
	}
	if !r.WaitFor(time.Minute, 10*time.Millisecond, func() bool { return done == clients }) {
		r.Failf("clients-blocked", "clients blocked: %v", r.Alive(false))
		return
	}
	for i, p := range sh.promises {
		if p.done != 1 {
			r.Failf("promise-not-resolved-once", "admitted call %d reported Pass/Fail %d times (want exactly once)", i, p.done)
			return
		}
	}
	if sh.flying != 0 {
		r.Failf("inflight-not-zero", "in-flight count is %d after every admitted call finished", sh.flying)
	}
}
