//go:build verif

package sqlx

import (
	"context"
	"database/sql"
	"database/sql/driver"
	"errors"
	"fmt"
	"reflect"
	"strings"
	"testing"
	"time"

	"github.com/gotid/god/internal/zsim"
	"github.com/gotid/god/internal/zsim/zsql"
	"github.com/gotid/god/lib/logx"
	"github.com/gotid/god/lib/timex"
)

// C11 - SQL sessions: transactions are atomic, rows map by column name.
// Real: sqlx.commonConn.Transact(Ctx), transact, transactOnConn, txSession,
// orm.go, stmt.go, database/sql, the connection's breaker. Stub: a fake
// database/sql driver that records Begin/Exec/Query/Commit/Rollback and
// fails where the case says.

func init() {
	logx.Disable()
	DisableLog()
}

type c11Case struct {
	stmts    int
	ending   int // 0 nil, 1 error, 2 panic, 3 panic(nil)
	at       int // after how many statements the ending happens
	fault    string
	ignoreEx bool // body ignores an Exec error
	ctxEntry bool
	cancelAt int // TransactCtx only: the caller's context is cancelled before statement k (stmts = just before the body returns); -1 never
}

var c11Cases = func() []c11Case {
	var out []c11Case
	for stmts := 0; stmts <= 3; stmts++ {
		type end struct{ kind, at int }
		ends := []end{{0, stmts}}
		for k := 0; k <= stmts; k++ {
			ends = append(ends, end{1, k}, end{2, k})
			if k == stmts {
				ends = append(ends, end{3, k})
			}
		}
		for _, e := range ends {
			faults := []string{"", "begin", "commit", "rollback", "open"}
			for j := 0; j < e.at; j++ {
				faults = append(faults, fmt.Sprintf("exec#%d", j))
			}
			for _, f := range faults {
				for _, ign := range []bool{false, true} {
					if ign && !strings.HasPrefix(f, "exec#") {
						continue
					}
					out = append(out, c11Case{stmts, e.kind, e.at, f, ign, false, -1})
					for ca := -1; ca <= e.at && ca <= stmts; ca++ {
						out = append(out, c11Case{stmts, e.kind, e.at, f, ign, true, ca})
					}
				}
			}
		}
	}
	return out
}()

func TestZsimC11(t *testing.T) {
	zsim.Main(t, zsim.Harness{
		Property: "C11", Name: "sqlx",
		Run:     c11Run,
		Horizon: time.Hour,
		Rule:    fmt.Sprintf("even seeds enumerate the %d transaction cases (statements 0..3 x body ending nil/error/panic at statement k x driver fault at open/begin/exec#j/commit/rollback x body ignoring the exec error x Transact/TransactCtx x the caller's context cancelled before statement k or just before the body returns) round-robin, each on a fresh connection; odd seeds draw a destination struct shape (flat, embedded untagged, embedded with tags of its own, pointer-embedded), column layout (permuted, missing, surplus columns) and result set for the row mapping; non-trivial = a driver fault or a non-nil body outcome occurred, or a column permutation / extra / missing column was generated; distinct = distinct event-log fingerprint", len(c11Cases)),
		Real:    []string{"lib/store/sqlx commonConn.Transact/TransactCtx, transact, transactOnConn, txSession", "lib/store/sqlx orm.go, stmt.go", "database/sql", "lib/breaker (per-connection breaker)"},
		Stub:    []string{"fake database/sql driver (internal/zsim/zsql)", "transaction bodies (scripts)"},
	})
}

func c11Run(r *zsim.Run) {
	timex.ZsimReset()
	if r.Seed%2 == 0 {
		c11Tx(r, c11Cases[int((r.Seed/2)%int64(len(c11Cases)))])
	} else {
		c11Rows(r)
	}
}

var c11ErrBody = errors.New("body-error")

func c11Tx(r *zsim.Run, c c11Case) {
	r.Logf("case %+v", c)
	fdb, db := zsql.New()
	defer db.Close()
	errDrv := errors.New("driver-fault-" + c.fault)
	if c.fault != "" {
		fdb.Fail[c.fault] = errDrv
	}
	conn := NewConnFromDB(db)
	bodyRan := false
	executed := 0
	var execErrSeen error
	ctx, cancel := context.WithCancel(context.Background())
	defer cancel()
	// what the body fails with does not matter: anything but nil is rolled back
	bodyErr := []error{c11ErrBody, driver.ErrBadConn, fmt.Errorf("wrapped: %w", driver.ErrBadConn), sql.ErrConnDone, context.Canceled}[r.Ops.Intn(5)]
	body := func(s Session) error {
		bodyRan = true
		for k := 0; k <= c.stmts; k++ {
			if k == c.cancelAt {
				// the caller gives up; what the transaction does is still decided by the body's result alone
				cancel()
				r.FaultFired("caller-context-cancelled")
			}
			if k == c.at {
				switch c.ending {
				case 1:
					return bodyErr
				case 2:
					panic("body-panic")
				case 3:
					var nothing any
					panic(nothing) // the module's language version lets recover() return nil for this
				}
			}
			if k < c.stmts {
				_, err := s.Exec(fmt.Sprintf("update t set v=%d", k))
				executed++
				if err != nil {
					execErrSeen = err
					if !c.ignoreEx {
						return err
					}
				}
			}
		}
		return nil
	}
	var err error
	var panicked any
	func() {
		defer func() { panicked = recover() }()
		if c.ctxEntry {
			err = conn.TransactCtx(ctx, func(_ context.Context, s Session) error { return body(s) })
		} else {
			err = conn.Transact(body)
		}
	}()
	commits, rollbacks, begins := fdb.Count("commit"), fdb.Count("rollback"), fdb.Count("begin")
	r.Logf("result err=%v panic=%v calls=%v", err, panicked, fdb.Calls)
	if c.fault != "" || c.ending != 0 {
		r.NonTrivial()
	}
	faultHit := false
	for _, call := range fdb.Calls {
		if call == c.fault {
			faultHit = true
		}
	}
	if strings.HasPrefix(c.fault, "exec#") && execErrSeen != nil {
		faultHit = true
	}
	if faultHit {
		r.FaultFired("driver-" + strings.TrimRight(c.fault, "0123456789"))
	}
	// the connection could not be opened / the transaction could not begin
	if c.fault == "open" || c.fault == "begin" {
		if bodyRan || commits+rollbacks > 0 {
			r.Failf("body-ran-without-transaction", "the %s call failed but the body ran=%v commits=%d rollbacks=%d", c.fault, bodyRan, commits, rollbacks)
			return
		}
		if !errors.Is(err, errDrv) {
			r.Failf("begin-error-lost", "the %s call failed with %v but Transact returned %v (panic %v)", c.fault, errDrv, err, panicked)
		}
		return
	}
	if begins != 1 {
		r.Failf("begin-count", "expected exactly one Begin, trace %v", fdb.Calls)
		return
	}
	// what the body did
	bodyNil := c.ending == 0 && !(execErrSeen != nil && !c.ignoreEx)
	bodyPanic := c.ending >= 2 && !(execErrSeen != nil && !c.ignoreEx)
	switch {
	case bodyNil:
		if commits != 1 || rollbacks != 0 {
			r.Failf("commit-count", "the body returned nil: want exactly one Commit and no Rollback, trace %v", fdb.Calls)
			return
		}
		if c.fault == "commit" {
			if !errors.Is(err, errDrv) {
				r.Failf("commit-error-lost", "Commit failed with %v but Transact returned %v", errDrv, err)
			}
			return
		}
		if err != nil || panicked != nil {
			r.Failf("spurious-error", "the body returned nil and Commit succeeded but Transact returned err=%v panic=%v", err, panicked)
		}
	case bodyPanic:
		if commits != 0 || rollbacks != 1 {
			r.Failf("panic-not-rolled-back", "the body panicked: want exactly one Rollback and no Commit, got commits=%d rollbacks=%d, trace %v", commits, rollbacks, fdb.Calls)
			return
		}
		if err == nil && panicked == nil {
			r.Failf("panic-swallowed", "the body panicked but Transact returned nil and re-raised nothing")
		}
	default: // the body returned an error
		want := bodyErr
		if execErrSeen != nil && !c.ignoreEx {
			want = execErrSeen
		}
		if commits != 0 || rollbacks != 1 {
			r.Failf("error-not-rolled-back", "the body returned %v: want exactly one Rollback and no Commit, got commits=%d rollbacks=%d, trace %v", want, commits, rollbacks, fdb.Calls)
			return
		}
		if err == nil {
			r.Failf("error-swallowed", "the body returned %v but Transact returned nil", want)
			return
		}
		if c.fault != "rollback" && !errors.Is(err, want) {
			r.Failf("wrong-error", "the body returned %v but Transact returned %v", want, err)
			return
		}
		if c.fault == "rollback" && !errors.Is(err, errDrv) && !strings.Contains(err.Error(), want.Error()) {
			r.Failf("wrong-error", "the body returned %v, Rollback failed with %v, Transact returned %v (mentions neither)", want, errDrv, err)
		}
	}
}

// ---- row mapping (input generation riding along) ----

type c11Field struct {
	name string
	kind int // 0 int64 1 string 2 float64 3 bool 4 *string 5 *int64 6 int 7 uint32
}

var c11Kinds = []reflect.Type{
	reflect.TypeOf(int64(0)), reflect.TypeOf(""), reflect.TypeOf(float64(0)), reflect.TypeOf(false),
	reflect.TypeOf((*string)(nil)), reflect.TypeOf((*int64)(nil)), reflect.TypeOf(int(0)), reflect.TypeOf(uint32(0)),
}

func c11Value(kind, row, col int) driver.Value {
	switch kind {
	case 0, 5, 6:
		return int64(1000*row + 10*col + 7)
	case 7:
		return int64(100*row + col + 1)
	case 1, 4:
		return fmt.Sprintf("s-%d-%d", row, col)
	case 2:
		return float64(row) + float64(col)/8 + 0.5
	default:
		return (row+col)%2 == 0
	}
}

// destinations with embedded structs: mapped by position over the flattened field list
type C11Inner struct {
	Value string
	Score int64
}

type c11Outer struct {
	Name string
	Age  int64
	C11Inner
}

type c11OuterPtr struct {
	Name string
	*C11Inner
	Age int64
}

func c11Embedded(r *zsim.Run) {
	o := r.Ops
	ptr := o.Intn(2) == 1
	ncols := 1 + o.Intn(4) // flattened field count is 4
	if o.Intn(5) == 0 {
		ncols = 5 + o.Intn(2) // more columns than the untagged destination has fields
	}
	strict := o.Intn(2) == 0
	many := o.Intn(2) == 0
	nrows := zsim.Pick(o, 1, 2, 0)
	// flattened order
	kinds := []int{1, 0, 1, 0} // Name, Age, Value, Score
	if ptr {
		kinds = []int{1, 1, 0, 0} // Name, Value, Score, Age
	}
	cols := []string{"c0", "c1", "c2", "c3", "c4", "c5"}[:ncols]
	kinds = append(kinds, 0, 1)
	data := make([][]driver.Value, nrows)
	for row := range data {
		for c := 0; c < ncols; c++ {
			data[row] = append(data[row], c11Value(kinds[c], row, c))
		}
	}
	r.Logf("embedded: ptr=%v ncols=%d strict=%v many=%v nrows=%d", ptr, ncols, strict, many, nrows)
	r.NonTrivial()
	fdb, db := zsql.New()
	defer db.Close()
	fdb.Rows = func(string, []driver.NamedValue) ([]string, [][]driver.Value, error) { return cols, data, nil }
	conn := NewConnFromDB(db)
	flat := func(v any) []any {
		switch x := v.(type) {
		case c11Outer:
			return []any{x.Name, x.Age, x.Value, x.Score}
		case c11OuterPtr:
			if x.C11Inner == nil {
				return []any{x.Name, "", int64(0), x.Age}
			}
			return []any{x.Name, x.Value, x.Score, x.Age}
		}
		return nil
	}
	var err error
	var got [][]any
	var panicked any
	func() {
		defer func() { panicked = recover() }()
		switch {
		case many && !ptr:
			var d []c11Outer
			if strict {
				err = conn.QueryRows(&d, "q")
			} else {
				err = conn.QueryRowsPartial(&d, "q")
			}
			for _, x := range d {
				got = append(got, flat(x))
			}
		case many:
			var d []*c11OuterPtr
			if strict {
				err = conn.QueryRows(&d, "q")
			} else {
				err = conn.QueryRowsPartial(&d, "q")
			}
			for _, x := range d {
				got = append(got, flat(*x))
			}
		case !ptr:
			var d c11Outer
			if strict {
				err = conn.QueryRow(&d, "q")
			} else {
				err = conn.QueryRowPartial(&d, "q")
			}
			got = append(got, flat(d))
		default:
			var d c11OuterPtr
			if strict {
				err = conn.QueryRow(&d, "q")
			} else {
				err = conn.QueryRowPartial(&d, "q")
			}
			got = append(got, flat(d))
		}
	}()
	r.Logf("result err=%v panic=%v rows=%v", err, panicked, got)
	if panicked != nil {
		r.Failf("row-mapping-panic", "query mapping panicked: %v", panicked)
		return
	}
	if !many && nrows == 0 {
		if !errors.Is(err, ErrNotFound) {
			r.Failf("empty-result-not-reported", "single-row query on an empty result returned %v, want ErrNotFound", err)
		}
		return
	}
	if ncols > 4 && nrows > 0 && err != nil {
		// columns that an untagged destination has no field for: refusing the result is one honest answer,
		// filling the fields by position and ignoring the rest (checked below) is the other
		r.Probe("untagged_extra_columns_refused")
		return
	}
	if strict && ncols < 4 && nrows > 0 {
		if !errors.Is(err, ErrNotMatchDestination) {
			r.Failf("strict-missing-column-accepted", "strict mode: %d columns for a destination with 4 fields (two of them in an embedded struct): want ErrNotMatchDestination, got %v with %v", ncols, err, got)
		}
		return
	}
	if err != nil {
		r.Failf("row-mapping-error", "unexpected error %v", err)
		return
	}
	if many && len(got) != nrows {
		r.Failf("wrong-row-count", "QueryRows returned %d rows, want %d", len(got), nrows)
		return
	}
	for row := 0; row < nrows && row < len(got); row++ {
		for c := 0; c < 4; c++ {
			var want any
			if c < ncols {
				want = c11Value(kinds[c], row, c)
			} else if kinds[c] == 1 {
				want = ""
			} else {
				want = int64(0)
			}
			if got[row][c] != want {
				r.Failf("wrong-field-value", "embedded destination row %d position %d: got %v, want %v", row, c, got[row][c], want)
				return
			}
		}
	}
}

// destinations whose embedded struct carries db tags as well: mapped by column name, whatever the column order
type C11InnerT struct {
	Value string `db:"value"`
	Score int64  `db:"score"`
}

type c11OuterT struct {
	Name string `db:"name"`
	Age  int64  `db:"age"`
	C11InnerT
}

type c11OuterTPtr struct {
	Name string `db:"name"`
	*C11InnerT
	Age int64 `db:"age"`
}

func c11EmbeddedTagged(r *zsim.Run) {
	o := r.Ops
	ptr := o.Intn(2) == 1
	strict := o.Intn(3) == 0
	many := o.Intn(2) == 0
	nrows := zsim.Pick(o, 1, 2, 0)
	names := []string{"name", "age", "value", "score"}
	kindOf := map[string]int{"name": 1, "age": 0, "value": 1, "score": 0, "extra": 1}
	// a permutation of the four columns, some of them possibly missing, possibly one the destination does not know
	var cols []string
	perm := []int{0, 1, 2, 3}
	for i := 3; i > 0; i-- {
		j := o.Intn(i + 1)
		perm[i], perm[j] = perm[j], perm[i]
	}
	for _, i := range perm {
		if strict || o.Intn(5) != 0 {
			cols = append(cols, names[i])
		}
	}
	if o.Intn(4) == 0 {
		at := o.Intn(len(cols) + 1)
		cols = append(cols[:at], append([]string{"extra"}, cols[at:]...)...)
	}
	if len(cols) == 0 {
		cols = []string{"score"}
	}
	data := make([][]driver.Value, nrows)
	for row := range data {
		for c, name := range cols {
			data[row] = append(data[row], c11Value(kindOf[name], row, c))
		}
	}
	r.Logf("embedded tagged: ptr=%v cols=%v strict=%v many=%v nrows=%d", ptr, cols, strict, many, nrows)
	r.NonTrivial()
	fdb, db := zsql.New()
	defer db.Close()
	fdb.Rows = func(string, []driver.NamedValue) ([]string, [][]driver.Value, error) { return cols, data, nil }
	conn := NewConnFromDB(db)
	type flatT struct {
		name, value string
		age, score  int64
	}
	var err error
	var got []flatT
	var panicked any
	func() {
		defer func() { panicked = recover() }()
		q := func(one, all any) {
			switch {
			case many && strict:
				err = conn.QueryRows(all, "q")
			case many:
				err = conn.QueryRowsPartial(all, "q")
			case strict:
				err = conn.QueryRow(one, "q")
			default:
				err = conn.QueryRowPartial(one, "q")
			}
		}
		if !ptr {
			var d c11OuterT
			var ds []c11OuterT
			q(&d, &ds)
			if !many {
				ds = []c11OuterT{d}
			}
			for _, x := range ds {
				got = append(got, flatT{x.Name, x.Value, x.Age, x.Score})
			}
		} else {
			var d c11OuterTPtr
			var ds []*c11OuterTPtr
			q(&d, &ds)
			if !many {
				ds = []*c11OuterTPtr{&d}
			}
			for _, x := range ds {
				f := flatT{name: x.Name, age: x.Age}
				if x.C11InnerT != nil {
					f.value, f.score = x.Value, x.Score
				}
				got = append(got, f)
			}
		}
	}()
	r.Logf("result err=%v panic=%v rows=%v", err, panicked, got)
	if panicked != nil {
		r.Failf("row-mapping-panic", "query mapping panicked: %v", panicked)
		return
	}
	if !many && nrows == 0 {
		if !errors.Is(err, ErrNotFound) {
			r.Failf("empty-result-not-reported", "single-row query on an empty result returned %v, want ErrNotFound", err)
		}
		return
	}
	if nrows == 0 {
		if err != nil || len(got) != 0 {
			r.Failf("row-mapping-error", "an empty result gave err=%v rows=%v", err, got)
		}
		return
	}
	if err != nil {
		r.Failf("row-mapping-error", "columns %v into a destination whose own and embedded fields are all tagged: unexpected error %v", cols, err)
		return
	}
	if len(got) != nrows && many {
		r.Failf("wrong-row-count", "QueryRows returned %d rows, want %d", len(got), nrows)
		return
	}
	for row := 0; row < nrows && row < len(got); row++ {
		want := flatT{}
		for c, name := range cols {
			switch name {
			case "name":
				want.name = c11Value(1, row, c).(string)
			case "value":
				want.value = c11Value(1, row, c).(string)
			case "age":
				want.age = c11Value(0, row, c).(int64)
			case "score":
				want.score = c11Value(0, row, c).(int64)
			}
		}
		if got[row] != want {
			r.Failf("wrong-field-value", "columns %v, row %d: destination with a tagged embedded struct holds %+v, the columns carry %+v", cols, row, got[row], want)
			return
		}
	}
}

// c11SameName: destinations of different types that print the same name (function-local types, or types of
// equally named packages) used one after the other in a drawn order: each is filled by its own tags.
func c11SameName(r *zsim.Run) {
	o := r.Ops
	fdb, db := zsql.New()
	defer db.Close()
	cols := []string{"owner", "balance"}
	fdb.Rows = func(string, []driver.NamedValue) ([]string, [][]driver.Value, error) {
		return cols, [][]driver.Value{{"bob", int64(250)}}, nil
	}
	conn := NewConnFromDB(db)
	r.NonTrivial()
	v1 := func() (string, int64, error) {
		type c11Account struct {
			Owner   string `db:"owner"`
			Balance int64  `db:"balance"`
		}
		var a c11Account
		err := conn.QueryRow(&a, "select owner, balance from t")
		return a.Owner, a.Balance, err
	}
	v2 := func() (string, int64, error) {
		type c11Account struct {
			Balance int64  `db:"balance"`
			Owner   string `db:"owner"`
			Note    string `db:"note"`
		}
		var a c11Account
		err := conn.QueryRowPartial(&a, "select owner, balance from t")
		return a.Owner, a.Balance, err
	}
	v3 := func() (string, int64, error) {
		type c11Account struct {
			Name  string `db:"owner"`
			Funds int64  `db:"balance"`
		}
		var a []c11Account
		err := conn.QueryRows(&a, "select owner, balance from t")
		if err != nil || len(a) != 1 {
			return "", 0, fmt.Errorf("rows=%d err=%v", len(a), err)
		}
		return a[0].Name, a[0].Funds, nil
	}
	fns := []func() (string, int64, error){v1, v2, v3}
	for i := 0; i < 3+o.Intn(5); i++ {
		k := o.Intn(3)
		owner, bal, err := fns[k]()
		r.Logf("same-name destination v%d -> %q %d %v", k+1, owner, bal, err)
		if err != nil || owner != "bob" || bal != 250 {
			r.Failf("wrong-field-value", "destination variant %d of a type printed as sqlx.c11Account received owner=%q balance=%d err=%v from the row (owner=bob, balance=250): fields are matched by the db tags of the destination's own type", k+1, owner, bal, err)
			return
		}
	}
}

// c11Repeat: one connection sees the same outcome many times (transactions whose body reports "not found",
// single-row queries on an empty result): the twentieth call behaves like the first - the body runs and its error
// comes back, the query reports ErrNotFound - whatever the connection's breaker draws.
func c11Repeat(r *zsim.Run) {
	o := r.Ops
	r.RandMode = 1 // the breaker rejects at any positive drop ratio
	fdb, db := zsql.New()
	defer db.Close()
	fdb.Rows = func(string, []driver.NamedValue) ([]string, [][]driver.Value, error) { return []string{"a"}, nil, nil }
	conn := NewConnFromDB(db)
	kind := o.Intn(3)
	n := 12 + o.Intn(40)
	r.Logf("repeat kind=%d n=%d", kind, n)
	r.NonTrivial()
	for i := 0; i < n; i++ {
		k := kind
		if k == 2 {
			k = o.Intn(2)
		}
		switch k {
		case 0:
			ran := false
			err := conn.Transact(func(s Session) error {
				ran = true
				var v int
				return s.QueryRow(&v, "select a from t where id=1")
			})
			if !ran || err != ErrNotFound {
				r.Failf("wrong-error", "transaction %d on the connection: the body ran=%v and reports ErrNotFound, Transact returned %v", i+1, ran, err)
				return
			}
		case 1:
			var v int
			if err := conn.QueryRow(&v, "select a from t where id=1"); err != ErrNotFound {
				r.Failf("empty-result-not-reported", "single-row query %d on an empty result returned %v, want ErrNotFound", i+1, err)
				return
			}
		}
		if o.Intn(4) == 0 {
			zsim.Sleep(time.Duration(o.Intn(3000)) * time.Millisecond)
		}
	}
}

func c11Rows(r *zsim.Run) {
	o := r.Ops
	switch o.Intn(8) {
	case 3:
		c11Embedded(r)
		return
	case 7:
		if o.Intn(2) == 0 {
			c11EmbeddedTagged(r)
		} else {
			c11Embedded(r)
		}
		return
	case 5:
		c11SameName(r)
		return
	case 6:
		c11Repeat(r)
		return
	}
	nf := 1 + o.Intn(5)
	tagged := o.Intn(4) != 0
	style := o.Intn(3) // snake_case, camelCase or upper-case column names: the tag is matched verbatim
	fields := make([]c11Field, nf)
	sf := make([]reflect.StructField, nf)
	for i := range fields {
		fields[i] = c11Field{name: fmt.Sprintf([]string{"col_%c", "col%cId", "COL_%c"}[style], 'a'+i), kind: o.Intn(len(c11Kinds))}
		sf[i] = reflect.StructField{Name: fmt.Sprintf("F%c", 'A'+i), Type: c11Kinds[fields[i].kind]}
		if tagged {
			sf[i].Tag = reflect.StructTag(fmt.Sprintf(`db:"%s"`, fields[i].name))
		}
	}
	st := reflect.StructOf(sf)
	// column layout
	cols := make([]int, nf) // index into fields, -1 = extra column
	for i := range cols {
		cols[i] = i
	}
	layout := "same"
	if tagged {
		switch o.Intn(5) {
		case 1:
			for i := nf - 1; i > 0; i-- {
				j := o.Intn(i + 1)
				cols[i], cols[j] = cols[j], cols[i]
			}
			layout = "permuted"
		case 2:
			at := o.Intn(nf + 1)
			cols = append(cols[:at], append([]int{-1}, cols[at:]...)...)
			layout = "extra"
		case 3:
			if nf > 1 {
				at := o.Intn(nf)
				cols = append(cols[:at], cols[at+1:]...)
				layout = "missing"
			}
		case 4:
			for i := nf - 1; i > 0; i-- {
				j := o.Intn(i + 1)
				cols[i], cols[j] = cols[j], cols[i]
			}
			cols = append(cols, -1)
			layout = "permuted+extra"
		}
	} else if o.Intn(4) == 1 && nf > 1 {
		cols = cols[:nf-1]
		layout = "missing"
	}
	if layout != "same" {
		r.NonTrivial()
	}
	nrows := zsim.Pick(o, 1, 0, 3)
	strict := o.Intn(2) == 0
	many := o.Intn(2) == 0
	viaTx := o.Intn(3) == 0
	ptrElems := o.Intn(2) == 0
	colNames := make([]string, len(cols))
	for i, c := range cols {
		if c < 0 {
			colNames[i] = "zz_extra"
		} else {
			colNames[i] = fields[c].name
		}
	}
	data := make([][]driver.Value, nrows)
	for row := range data {
		data[row] = make([]driver.Value, len(cols))
		for i, c := range cols {
			if c < 0 {
				data[row][i] = "ignored"
			} else {
				data[row][i] = c11Value(fields[c].kind, row, c)
			}
		}
	}
	r.Logf("rows: fields=%v tagged=%v layout=%s cols=%v nrows=%d strict=%v many=%v tx=%v ptrElems=%v", fields, tagged, layout, colNames, nrows, strict, many, viaTx, ptrElems)
	fdb, db := zsql.New()
	defer db.Close()
	fdb.Rows = func(string, []driver.NamedValue) ([]string, [][]driver.Value, error) { return colNames, data, nil }
	// fault: the query is accepted but fetching the first row fails in the driver (single-row queries)
	var fetchErr error
	if !many && r.Fault.Intn(6) == 5 {
		fetchErr = errors.New("driver-fault-fetch-row-0")
		fdb.RowFail = map[int]error{0: fetchErr}
		r.FaultFired("driver-row-fetch")
	}
	conn := NewConnFromDB(db)
	var dest reflect.Value
	if many {
		if ptrElems {
			dest = reflect.New(reflect.SliceOf(reflect.PointerTo(st)))
		} else {
			dest = reflect.New(reflect.SliceOf(st))
		}
	} else {
		dest = reflect.New(st)
	}
	call := func(s Session) error {
		switch {
		case many && strict:
			return s.QueryRows(dest.Interface(), "select 1")
		case many:
			return s.QueryRowsPartial(dest.Interface(), "select 1")
		case strict:
			return s.QueryRow(dest.Interface(), "select 1")
		default:
			return s.QueryRowPartial(dest.Interface(), "select 1")
		}
	}
	var err error
	var panicked any
	func() {
		defer func() { panicked = recover() }()
		if viaTx {
			err = conn.Transact(call)
		} else {
			err = call(conn)
		}
	}()
	r.Logf("result err=%v panic=%v", err, panicked)
	if panicked != nil {
		r.Failf("row-mapping-panic", "query mapping panicked: %v", panicked)
		return
	}
	if fetchErr != nil {
		if !errors.Is(err, fetchErr) {
			r.Failf("driver-error-lost", "the driver failed to fetch the first row (%v) but the single-row query returned %v", fetchErr, err)
		}
		return
	}
	missing := len(cols) < nf || layout == "missing"
	if strict && missing && (nrows > 0 || many) {
		if nrows > 0 && !errors.Is(err, ErrNotMatchDestination) {
			r.Failf("strict-missing-column-accepted", "strict mode: %d columns for %d destination fields, want ErrNotMatchDestination, got %v", len(cols), nf, err)
		}
		return
	}
	if !many && nrows == 0 {
		if !errors.Is(err, ErrNotFound) {
			r.Failf("empty-result-not-reported", "single-row query on an empty result returned %v, want ErrNotFound", err)
		}
		return
	}
	if err != nil {
		r.Failf("row-mapping-error", "unexpected error %v", err)
		return
	}
	check := func(v reflect.Value, row int) bool {
		v = reflect.Indirect(v)
		present := map[int]bool{}
		for _, c := range cols {
			if c >= 0 {
				present[c] = true
			}
		}
		for i, f := range fields {
			got := reflect.Indirect(v.Field(i))
			var want any
			if present[i] {
				want = c11Value(f.kind, row, i)
			}
			var g any
			if got.IsValid() {
				g = got.Interface()
			}
			ok := false
			switch w := want.(type) {
			case nil:
				ok = !got.IsValid() || got.IsZero()
			case int64:
				switch f.kind {
				case 6:
					ok = g == int(w)
				case 7:
					ok = g == uint32(w)
				default:
					ok = g == w
				}
			default:
				ok = g == want
			}
			if !ok {
				r.Failf("wrong-field-value", "row %d field %s (%s): got %v, want %v (columns %v)", row, sf0(st, i), f.name, g, want, colNames)
				return false
			}
		}
		return true
	}
	if many {
		sl := dest.Elem()
		if sl.Len() != nrows {
			r.Failf("wrong-row-count", "QueryRows returned %d rows, want %d", sl.Len(), nrows)
			return
		}
		for i := 0; i < sl.Len(); i++ {
			if !check(sl.Index(i), i) {
				return
			}
		}
	} else {
		check(dest, 0)
	}
}

func sf0(t reflect.Type, i int) string { return t.Field(i).Name }
