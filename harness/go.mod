module harness.invalid

go 1.19
// placeholder: keeps harness sources (copied into scratch copies of gotid/god) out of the verif module
