//go:build verif

package handler

import (
	"fmt"
	"net/http"
	"net/http/httptest"
	"testing"
	"time"

	"github.com/gotid/god/internal/zsim"
	"github.com/gotid/god/lib/logx"
	"github.com/gotid/god/lib/stat"
	"github.com/gotid/god/lib/timex"
)

// C01 (HTTP integration) - responses with a status below 500 never move a
// route's breaker towards open; 5xx do. Real: BreakerHandler,
// WithCodeResponseWriter, lib/breaker.

func init() { logx.Disable() }

func TestZsimC01Http(t *testing.T) {
	zsim.Main(t, zsim.Harness{
		Property: "C01", Name: "breaker-http",
		Run:     c01HttpRun,
		Horizon: time.Hour,
		Rule:    "200 requests whose handler answers with a status below 500 (explicit, implicit 200, or written twice) through BreakerHandler, random source steered to reject at any positive drop ratio: the next request must reach the handler; then 12 responses with a 5xx status must make the route answer 503 without running the handler; distinct = distinct event-log fingerprint",
		Real:    []string{"api/handler.BreakerHandler", "api/internal/response.WithCodeResponseWriter", "lib/breaker"},
		Stub:    []string{"inner handlers with scripted statuses", "httptest recorder as the connection"},
	})
}

func c01HttpRun(r *zsim.Run) {
	timex.ZsimReset()
	r.RandMode = 1
	o := r.Ops
	r.NonTrivial()
	metrics := stat.NewMetrics(fmt.Sprintf("c01-%d", r.Seed))
	ran := 0
	status := 200
	h := BreakerHandler(http.MethodGet, fmt.Sprintf("/route/%d", r.Seed), metrics)(http.HandlerFunc(func(w http.ResponseWriter, req *http.Request) {
		ran++
		if status != 0 {
			w.WriteHeader(status)
		}
		w.Write([]byte("x"))
	}))
	do := func(code int) int {
		status = code
		rec := httptest.NewRecorder()
		h.ServeHTTP(rec, httptest.NewRequest(http.MethodGet, "http://localhost/route", nil))
		return rec.Code
	}
	benign := []int{0, 200, 201, 204, 301, 400, 401, 403, 404, 429, 499}
	// most runs stay with one status: one wrongly counted as a failure then has nothing to hide behind
	focus, focused := benign[o.Intn(len(benign))], o.Intn(3) > 0
	r.Logf("focus status %d (%v)", focus, focused)
	for i := 0; i < 200; i++ {
		n := ran
		c := benign[o.Intn(len(benign))]
		if focused {
			c = focus
		}
		got := do(c)
		if ran == n {
			r.Failf("benign-outcome-trips-breaker", "after %d responses with a status below 500 the route's breaker dropped a request (answered %d)", i, got)
			return
		}
	}
	zsim.Sleep(11 * time.Second)
	rejected := false
	for i := 0; i < 12; i++ {
		n := ran
		got := do([]int{500, 502, 503, 504}[o.Intn(4)])
		if ran == n && got == http.StatusServiceUnavailable {
			rejected = true
			r.Probe("http_breaker_opened_after_" + fmt.Sprint(i))
			break
		}
	}
	if !rejected {
		r.Failf("breaker-not-tripped", "12 consecutive 5xx responses did not open the route's breaker")
		return
	}
	r.FaultFired("5xx-response")
	// after the failures have aged out, responses below 500 - also those that never call WriteHeader, on another
	// route - are successes again, whatever was answered before
	zsim.Sleep(11 * time.Second)
	h2 := BreakerHandler(http.MethodGet, fmt.Sprintf("/other/%d", r.Seed), metrics)(http.HandlerFunc(func(w http.ResponseWriter, req *http.Request) {
		ran++
		w.Write([]byte("implicit 200"))
	}))
	for i := 0; i < 40; i++ {
		n := ran
		var got int
		if i%2 == 0 {
			got = do(0)
		} else {
			rec := httptest.NewRecorder()
			h2.ServeHTTP(rec, httptest.NewRequest(http.MethodGet, "http://localhost/other", nil))
			got = rec.Code
		}
		if ran == n {
			r.Failf("benign-outcome-trips-breaker", "after the 5xx responses had left the window, request %d answered with an implicit 200 was dropped by a breaker (answered %d)", i, got)
			return
		}
	}
}
