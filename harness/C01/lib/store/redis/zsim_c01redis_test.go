//go:build verif

package redis

import (
	"context"
	"fmt"
	"strings"
	"testing"
	"time"

	"github.com/gotid/god/internal/zsim"
	"github.com/gotid/god/internal/zsim/zredis"
	"github.com/gotid/god/lib/breaker"
	"github.com/gotid/god/lib/logx"
	"github.com/gotid/god/lib/timex"
)

// C01 (Redis integration) - the outcomes the Redis wrapper declares benign are
// redis.Nil and context.Canceled: they never move the per-address breaker
// towards open. Everything else is a failure, in particular a call that runs
// into its own deadline against a server that does not answer. Real:
// lib/store/redis wrapper + acceptable(), lib/breaker, go-redis, miniredis.
// Stub: the network (simulated transport), the callers.

func init() { logx.Disable() }

func TestZsimC01Redis(t *testing.T) {
	zsim.Main(t, zsim.Harness{
		Property: "C01", Name: "breaker-redis",
		Run:     c01RedisRun,
		Horizon: time.Hour,
		Rule:    "100 benign outcomes (redis.Nil from drawn commands on absent keys, calls with an already cancelled context) through the wrapper with the breaker's random source steered to reject at any positive drop ratio: the next call must reach the server; then a server that stops answering and 10-14 calls that each run into their own context deadline: the breaker must open; distinct = distinct event-log fingerprint",
		Real:    []string{"lib/store/redis wrapper (Get/Hget/ZScore/GetCtx/...) + acceptable()", "lib/breaker (per address)", "go-redis", "miniredis"},
		Stub:    []string{"network (simulated transport with stalls)", "callers and their deadlines"},
	})
}

func c01RedisRun(r *zsim.Run) {
	timex.ZsimReset()
	breaker.ZsimReset()
	ZsimResetClients()
	r.RandMode = 1 // any positive drop ratio rejects
	o := r.Ops
	a := zredis.Start(r, fmt.Sprintf("sim-c01-%d:6379", r.Seed))
	defer a.Close()
	ZsimRegister(a.Addr, a.Client)
	w := New(a.Addr)
	r.NonTrivial()
	cctx, cancel := context.WithCancel(context.Background())
	cancel()
	for i := 0; i < 100; i++ {
		var err error
		switch o.Intn(4) {
		case 0:
			_, err = w.HGet("absent-h", "f")
			if err == Nil {
				err = nil
			}
		case 1:
			_, err = w.ZScore("absent-z", "m")
			if err == Nil {
				err = nil
			}
		case 2:
			_, err = w.Get("absent-key") // redis.Nil is turned into ""
		default:
			_, err = w.GetCtx(cctx, "k")
			if err == context.Canceled {
				err = nil
			}
		}
		if err != nil {
			r.Failf("benign-outcome-trips-breaker", "after %d outcomes that were redis.Nil or a cancelled context a call returned %v", i, err)
			return
		}
	}
	seen := len(a.Cmds)
	if _, err := w.Get("absent-key"); err != nil || len(a.Cmds) == seen {
		r.Failf("benign-outcome-trips-breaker", "after 100 benign outcomes the next call returned %v (reached the server: %v)", err, len(a.Cmds) != seen)
		return
	}
	zsim.Sleep(11 * time.Second)
	// the server stops answering; every caller gives each call 50-200ms
	a.Stall = func(cmd string, args []string) time.Duration { r.FaultFired("redis-stall"); return 30 * time.Second }
	n := 10 + o.Intn(5)
	budget := time.Duration(zsim.Pick(o, 50, 100, 200)) * time.Millisecond
	for i := 0; i < n; i++ {
		ctx, cf := context.WithTimeout(context.Background(), budget)
		_, err := w.GetCtx(ctx, "k")
		cf()
		r.Logf("call %d with a %v deadline against the silent server -> %v", i, budget, err)
		if err == nil {
			r.Failf("outage-invisible", "GetCtx succeeded although the server never answers")
			return
		}
		if err == breaker.ErrServiceUnavailable || strings.Contains(err.Error(), "断路器") {
			r.Probe("redis_breaker_opened_by_deadlines")
			r.FaultFired("caller-deadline-exceeded")
			return
		}
	}
	r.FaultFired("caller-deadline-exceeded")
	a.Stall = nil
	zsim.Sleep(100 * time.Millisecond)
	for i := 0; i < 5; i++ {
		c := len(a.Cmds)
		_, err := w.Get("k")
		if len(a.Cmds) == c && err != nil {
			r.Probe("redis_breaker_opened_by_deadlines")
			return
		}
	}
	r.Failf("breaker-not-tripped", "%d consecutive calls that ran into their own deadline (context.DeadlineExceeded) against a silent server did not open the per-address breaker", n)
}
