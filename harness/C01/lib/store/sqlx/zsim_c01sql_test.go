//go:build verif

package sqlx

import (
	"context"
	"database/sql"
	"errors"
	"fmt"
	"testing"
	"time"

	"github.com/go-sql-driver/mysql"
	"github.com/gotid/god/internal/zsim"
	"github.com/gotid/god/internal/zsim/zsql"
	"github.com/gotid/god/lib/breaker"
	"github.com/gotid/god/lib/logx"
	"github.com/gotid/god/lib/timex"
)

// C01 (sqlx integration) - outcomes the SQL connection declares benign
// (sql.ErrNoRows, sql.ErrTxDone, context.Canceled, and whatever a driver
// specific predicate adds) never move its breaker towards open; driver
// failures do. Real: sqlx.commonConn (all entry points), its breaker,
// database/sql. Stub: fake driver.

func init() {
	logx.Disable()
	DisableLog()
}

func TestZsimC01Sql(t *testing.T) {
	zsim.Main(t, zsim.Harness{
		Property: "C01", Name: "breaker-sqlx",
		Run:     c01SqlRun,
		Horizon: time.Hour,
		Rule:    "a connection (plain, or with the MySQL accept predicate) sees 200 benign outcomes drawn from Exec/Prepare/QueryRow/QueryRows/Transact failing with sql.ErrNoRows, sql.ErrTxDone, context.Canceled (cancelled context) or a duplicate-entry error, with the breaker's random source steered so that any positive drop ratio rejects: the next call must still reach the driver; then 12 driver failures must make it reject; non-trivial = always (faults are the workload); distinct = distinct event-log fingerprint",
		Real:    []string{"lib/store/sqlx commonConn Exec/Prepare/QueryRow/QueryRows/Transact + acceptable()", "lib/breaker", "database/sql"},
		Stub:    []string{"fake database/sql driver (internal/zsim/zsql)"},
	})
}

func c01SqlRun(r *zsim.Run) {
	timex.ZsimReset()
	r.RandMode = 1
	o := r.Ops
	fdb, db := zsql.New()
	defer db.Close()
	mysqlVariant := o.Intn(2) == 1
	var conn Conn
	if mysqlVariant {
		conn = NewConnFromDB(db, withMySQLAcceptable())
	} else {
		conn = NewConnFromDB(db)
	}
	r.NonTrivial()
	r.Logf("sqlx breaker integration mysql=%v", mysqlVariant)
	cctx, cancel := context.WithCancel(context.Background())
	cancel()
	benign := []error{sql.ErrNoRows, sql.ErrTxDone}
	// most runs stay with one kind of benign outcome: one wrongly counted as a failure then has nothing to hide behind
	focusKind, focusErr, focused := o.Intn(8), o.Intn(2), o.Intn(3) > 0
	r.Logf("focus kind=%d err=%d focused=%v", focusKind, focusErr, focused)
	pickErr := func() error {
		if focused {
			return benign[focusErr]
		}
		return benign[o.Intn(2)]
	}
	for i := 0; i < 200; i++ {
		var err error
		kind := o.Intn(8)
		if focused {
			kind = focusKind
		}
		if kind == 6 && !mysqlVariant {
			kind = 0
		}
		var want error
		switch kind {
		case 0: // Exec fails with a benign driver error
			want = pickErr()
			fdb.Fail[fmt.Sprintf("exec#%d", fdbExecs(fdb))] = want
			_, err = conn.Exec("update t set a=1")
		case 1: // cancelled context
			want = context.Canceled
			_, err = conn.ExecCtx(cctx, "update t set a=1")
		case 2: // not found
			want = ErrNotFound
			var v int
			err = conn.QueryRow(&v, "select a from t")
		case 3: // transaction body returns a benign error
			want = pickErr()
			err = conn.Transact(func(Session) error { return want })
		case 4:
			want = context.Canceled
			_, err = conn.PrepareCtx(cctx, "select 1")
		case 5:
			want = context.Canceled
			var v []int
			err = conn.QueryRowsCtx(cctx, &v, "select a from t")
		case 7: // the body finishes the transaction itself and reports success: Transact's own Commit finds it done
			want = sql.ErrTxDone
			err = conn.Transact(func(s Session) error { return s.(interface{ Commit() error }).Commit() })
		case 6: // duplicate entry: benign for the MySQL predicate
			want = &mysql.MySQLError{Number: 1062, Message: "dup"}
			fdb.Fail[fmt.Sprintf("exec#%d", fdbExecs(fdb))] = want
			_, err = conn.Exec("insert into t values(1)")
		}
		if err == breaker.ErrServiceUnavailable {
			r.Failf("benign-outcome-trips-breaker", "after %d benign outcomes (sql.ErrNoRows / sql.ErrTxDone / context.Canceled / duplicate entry) the connection's breaker rejected a call (kind %d, mysql predicate %v)", i, kind, mysqlVariant)
			return
		}
		if !errors.Is(err, want) && !(kind == 1 || kind == 4 || kind == 5) {
			r.Failf("harness-expectation", "kind %d returned %v, want %v", kind, err, want)
			return
		}
		if o.Intn(20) == 0 {
			zsim.Sleep(time.Duration(o.Intn(300)) * time.Millisecond)
		}
	}
	before := len(fdb.Calls)
	if _, err := conn.Exec("update t set a=2"); err != nil || len(fdb.Calls) == before {
		r.Failf("benign-outcome-trips-breaker", "after 200 benign outcomes a plain Exec returned %v and reached the driver=%v", err, len(fdb.Calls) != before)
		return
	}
	// driver failures must open it
	zsim.Sleep(11 * time.Second)
	boom := errors.New("dial tcp: connection refused")
	rejected := false
	for i := 0; i < 12; i++ {
		fdb.Fail[fmt.Sprintf("exec#%d", fdbExecs(fdb))] = boom
		n := len(fdb.Calls)
		_, err := conn.Exec("update t set a=3")
		if err == breaker.ErrServiceUnavailable && len(fdb.Calls) == n {
			rejected = true
			r.Probe("sqlx_breaker_opened_after_" + fmt.Sprint(i))
			break
		}
	}
	if !rejected {
		r.Failf("breaker-not-tripped", "12 consecutive driver failures did not open the connection's breaker")
	}
	r.FaultFired("driver-error")
}

func fdbExecs(d *zsql.DB) int {
	n := 0
	for _, c := range d.Calls {
		if len(c) > 5 && c[:5] == "exec:" {
			n++
		}
	}
	return n
}
