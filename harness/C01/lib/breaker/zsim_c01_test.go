//go:build verif

package breaker

import (
	"errors"
	"fmt"
	"testing"
	"time"

	"github.com/gotid/god/internal/zsim"
	"github.com/gotid/god/lib/logx"
	"github.com/gotid/god/lib/timex"
)

// C01 - circuit breaker: trips only on real failure excess, never runs
// rejected calls. Real: googleBreaker, loggedThrottle, circuitBreaker, the
// named registry, collection.RollingWindow, mathx.Proba (random source
// steered per run), timex. Stub: protected functions, fallbacks, callers.

func init() { logx.Disable() }

type c01Mark struct {
	at       time.Duration
	ok       bool
	inv, ret int64 // the marking operation, in event sequence numbers
}

type c01Br struct {
	b     Breaker
	marks []*c01Mark
}

func TestZsimC01(t *testing.T) {
	zsim.Main(t, zsim.Harness{
		Property: "C01", Name: "breaker",
		Run:      c01Run,
		Horizon:  2 * time.Hour,
		MaxSteps: 100000,
		Rule:     "1-4 tasks draw Do / DoWithAcceptable / DoWithFallback(Acceptable) / Allow+Accept|Reject (resolved later) / the same through the named registry, with outcome nil / acceptable error / unacceptable error / panic, protected functions that may sleep, and clock advances from {0,1ms,249ms,250ms,1s,9.74s,9.75s,10s,10.01s,25s}+jitter; the breaker's random source is steered min (any positive drop ratio rejects), max (never rejects) or seeded; non-trivial = at least one unacceptable outcome or panic was recorded and (a rejection happened or calls overlapped); distinct = distinct event-log fingerprint",
		Real:     []string{"lib/breaker googleBreaker, loggedThrottle, circuitBreaker, Get/Do* registry", "lib/collection.RollingWindow", "lib/mathx.Proba", "lib/timex"},
		Stub:     []string{"protected functions, fallbacks, acceptable predicates", "caller tasks"},
	})
}

var (
	c01ErrBad      = errors.New("unacceptable")
	c01ErrSoft     = errors.New("acceptable-error")
	c01ErrFallback = errors.New("fallback-result")
)

const (
	c01Full = 9750 * time.Millisecond
	c01Win  = 10 * time.Second
)

// judge: is a rejection decided during [inv,ret] at time t allowed / required?
func c01Judge(marks []*c01Mark, t time.Duration, inv, ret int64) (may, must bool, desc string) {
	var sDef, sOpt, fDef, fOpt int
	for _, m := range marks {
		if m.inv > ret {
			continue
		}
		age := t - m.at
		if age >= c01Win {
			continue
		}
		opt := age >= c01Full || m.ret == 0 || m.ret > inv
		switch {
		case m.ok && opt:
			sOpt++
		case m.ok:
			sDef++
		case opt:
			fOpt++
		default:
			fDef++
		}
	}
	may = float64(fDef+fOpt)-5 > 0.5*float64(sDef)
	must = float64(fDef)-5 > 0.5*float64(sDef+sOpt)
	return may, must, fmt.Sprintf("successes %d(+%d optional) failures %d(+%d optional) in the trailing 10s", sDef, sOpt, fDef, fOpt)
}

var c01Nested bool // this run's unacceptable errors are ErrServiceUnavailable itself (the protected function calls through another, open, breaker)

func c01Run(r *zsim.Run) {
	timex.ZsimReset()
	o := r.Ops
	c01Nested = o.Intn(4) == 0
	r.RandMode = o.Intn(3)
	lock.Lock()
	breakers = make(map[string]Breaker)
	lock.Unlock()
	zsim.Sleep(time.Duration(o.Intn(250)) * time.Millisecond)
	names := []string{"svc-a", "svc-b"}
	brs := map[string]*c01Br{}
	brs["anon"] = &c01Br{b: New()}
	// named breakers are created by whichever caller asks first, possibly several at once: the registry must
	// hand every caller of one name the same breaker
	get := func(name string) *c01Br {
		if name == "anon" {
			return brs[name]
		}
		b := Get(name) // has scheduling points
		if cur, ok := brs[name]; ok {
			if cur.b != b {
				r.Failf("registry-two-breakers-for-one-name", "Get(%q) returned a different breaker than an earlier Get of the same name: outcomes recorded through one are invisible to the other", name)
			}
			return cur
		}
		brs[name] = &c01Br{b: b}
		return brs[name]
	}
	r.Logf("randmode=%d", r.RandMode)
	tasks := 1 + o.Intn(4)
	if r.Tier == "thorough" && o.Intn(4) == 0 {
		tasks = 5 + o.Intn(4) // the thorough tier also draws larger runs
	}
	done := 0
	active := 0
	sawFailure, sawReject := false, false
	acceptable := func(err error) bool { return err == nil || errors.Is(err, c01ErrSoft) }
	jitter := func() time.Duration { return time.Duration(o.Intn(3)) * time.Millisecond }
	for t := 0; t < tasks; t++ {
		t := t
		n := 5 + o.Intn(40)
		r.Go(fmt.Sprintf("caller%d", t), func() {
			defer func() { done++ }()
			for i := 0; i < n && !r.Failed(); i++ {
				name := zsim.Pick(o, "anon", "svc-a", "anon", "svc-b")
				br := get(name)
				if r.Failed() {
					return
				}
				nilPanic := false
				outcome := zsim.Pick(o, 0, 1, 2, 2, 2, 3, 4) // 0 nil 1 acceptable error 2 unacceptable 3 panic 4 nil error that the caller's predicate rejects (a 5xx response)
				dur := time.Duration(zsim.Pick(o, 0, 0, 1, 30, 400)) * time.Millisecond
				api := o.Intn(6)
				if outcome == 3 {
					nilPanic = o.Intn(3) == 0
				}
				if outcome == 4 && api != 1 && api != 3 {
					outcome = 0 // only the WithAcceptable forms take a predicate
				}
				// the caller's predicate may itself panic (it looked at a response that is not there): the call
				// was admitted, so it is a failure, and the panic is the caller's
				predPanics := outcome == 4 && o.Intn(3) == 0
				viaRegistry := name != "anon" && o.Intn(2) == 0
				ran := false
				var reqStart, reqEnd int64
				var m *c01Mark
				req := func() error {
					ran = true
					reqStart = r.Seq()
					if dur > 0 {
						zsim.Sleep(dur)
					}
					reqEnd = r.Seq()
					m = &c01Mark{at: r.Now(), inv: reqEnd}
					switch outcome {
					case 0:
						m.ok = true
						br.marks = append(br.marks, m)
						return nil
					case 1:
						m.ok = api == 1 || api == 3 // only the WithAcceptable forms accept it
						br.marks = append(br.marks, m)
						return c01ErrSoft
					case 2:
						br.marks = append(br.marks, m)
						if c01Nested {
							return ErrServiceUnavailable // what a nested breaker that is open hands up: a failure like any other
						}
						return c01ErrBad
					case 4:
						br.marks = append(br.marks, m) // not ok: the predicate below rejects this call's nil error
						return nil
					}
					br.marks = append(br.marks, m)
					if nilPanic {
						// a panic is a panic whatever its value: under the module's language version (go 1.19)
						// recover() hands back nil for this one
						var none any
						panic(none)
					}
					panic("protected-function-panic")
				}
				// the predicate is the caller's: this call's rejects a nil error (e.g. it looks at the response as well)
				acceptable := func(err error) bool {
					if outcome == 4 {
						if predPanics {
							panic("predicate-panic")
						}
						return false
					}
					return acceptable(err)
				}
				var fbErr error
				fbRan := false
				fbPanics := o.Intn(4) == 3
				fallback := func(err error) error {
					fbRan = true
					fbErr = err
					if fbPanics {
						panic("fallback-panic")
					}
					return c01ErrFallback
				}
				active++
				overlapped := active > 1
				t0 := r.Now()
				inv := r.Seq()
				var err error
				var panicked any
				rejected := false
				if api == 5 {
					// Allow + Accept/Reject, possibly resolved much later
					p, e := br.b.Allow()
					decided := r.Seq()
					if e != nil {
						err, rejected = e, true
					} else {
						ran = true
						reqStart = decided
						if dur > 0 {
							zsim.Sleep(dur * 3)
						}
						m = &c01Mark{at: r.Now(), inv: r.Seq(), ok: outcome <= 1}
						br.marks = append(br.marks, m)
						if m.ok {
							p.Accept()
						} else {
							p.Reject("because")
						}
						m.ret = r.Seq()
					}
				} else {
					func() {
						returned := false
						defer func() {
							if panicked = recover(); panicked == nil && !returned {
								panicked = "panic-with-nil-value"
							}
						}()
						switch api {
						case 0:
							if viaRegistry {
								err = Do(name, req)
							} else {
								err = br.b.Do(req)
							}
						case 1:
							if viaRegistry {
								err = DoWithAcceptable(name, req, acceptable)
							} else {
								err = br.b.DoWithAcceptable(req, acceptable)
							}
						case 2:
							if viaRegistry {
								err = DoWithFallback(name, req, fallback)
							} else {
								err = br.b.DoWithFallback(req, fallback)
							}
						case 3:
							if viaRegistry {
								err = DoWithFallbackAcceptable(name, req, fallback, acceptable)
							} else {
								err = br.b.DoWithFallbackAcceptable(req, fallback, acceptable)
							}
						default:
							err = br.b.Do(req)
						}
						returned = true
					}()
					if m != nil {
						m.ret = r.Seq()
					}
					rejected = !ran
				}
				ret := r.Seq()
				active--
				if m != nil && !m.ok {
					sawFailure = true
					r.FaultFired("unacceptable-outcome")
				}
				r.Logf("c%d %s api=%d outcome=%d dur=%v -> err=%v panic=%v rejected=%v", t, name, api, outcome, dur, err, panicked, rejected)
				if rejected {
					sawReject = true
					r.Probe("rejected")
					decEnd := ret
					may, _, desc := c01Judge(br.marks, t0, inv, decEnd)
					if r.RandMode == 2 {
						r.Failf("rejected-with-zero-probability", "breaker %s rejected a call although its random source never falls below any drop ratio (%s)", name, desc)
						return
					}
					if !may {
						r.Failf("rejected-without-failure-excess", "breaker %s rejected a call at %v but the recorded outcomes do not satisfy total-5 > 1.5 x successes: %s", name, t0, desc)
						return
					}
					if (api == 2 || api == 3) && (!fbRan || fbErr != ErrServiceUnavailable) {
						r.Failf("fallback-not-called", "a rejected call's fallback ran=%v and received %v, want ErrServiceUnavailable", fbRan, fbErr)
						return
					}
					if api == 2 || api == 3 {
						// the fallback's result, or its panic, is the caller's; a rejected call records no outcome (checked by the accounting below)
						if fbPanics && panicked != "fallback-panic" || !fbPanics && (err != c01ErrFallback || panicked != nil) {
							r.Failf("wrong-rejection-error", "a rejected call whose fallback %s returned err=%v panic=%v", map[bool]string{true: "panicked", false: "returned fallback-result"}[fbPanics], err, panicked)
							return
						}
					}
					if api != 2 && api != 3 && err != ErrServiceUnavailable {
						r.Failf("wrong-rejection-error", "a rejected call returned %v", err)
						return
					}
				} else {
					if fbRan {
						r.Failf("fallback-ran-for-admitted-call", "the fallback ran although the protected function was executed")
						return
					}
					if r.RandMode == 1 {
						if _, must, desc := c01Judge(br.marks[:len(br.marks)-1], t0, inv, reqStart); must {
							r.Failf("not-rejected-despite-failure-excess", "breaker %s admitted a call at %v although its random source rejects at any positive drop ratio and %s", name, t0, desc)
							return
						}
					}
					if api != 5 {
						if outcome == 3 || predPanics {
							if panicked == nil {
								r.Failf("panic-not-reraised", "the protected function panicked but the call returned %v", err)
								return
							}
						} else if want := []error{nil, c01ErrSoft, map[bool]error{false: c01ErrBad, true: ErrServiceUnavailable}[c01Nested], nil, nil}[outcome]; err != want || panicked != nil {
							r.Failf("wrong-result", "the protected function returned %v but the call returned %v (panic %v)", want, err, panicked)
							return
						}
					}
				}
				if overlapped && sawFailure {
					r.NonTrivial()
				}
				// accounting: what the window holds must be explainable by the recorded marks
				if active == 0 {
					if gb, ok := br.b.(*circuitBreaker).throttle.(loggedThrottle).internalThrottle.(*googleBreaker); ok {
						acc, total := gb.history()
						now := r.Now()
						var sMin, sMax, tMin, tMax int64
						for _, mk := range br.marks {
							age := now - mk.at
							if age >= c01Win {
								continue
							}
							tMax++
							if mk.ok {
								sMax++
							}
							if age < c01Full && mk.ret != 0 { // ret == 0: the call has not recorded its outcome yet
								tMin++
								if mk.ok {
									sMin++
								}
							}
						}
						if acc < sMin || acc > sMax || total < tMin || total > tMax || total-acc < (tMin-sMin) || total-acc > (tMax-sMax) {
							r.Failf("outcome-accounting", "breaker %s holds %d successes of %d outcomes at %v, but the admitted calls recorded between %d and %d successes of between %d and %d outcomes in the trailing window", name, acc, total, now, sMin, sMax, tMin, tMax)
							return
						}
					}
				}
				adv := zsim.Pick(o, time.Duration(0), time.Millisecond, 249*time.Millisecond, 250*time.Millisecond, time.Second, 9740*time.Millisecond, 9750*time.Millisecond, 10*time.Second, 10010*time.Millisecond, 25*time.Second, 0, 0, time.Millisecond, time.Millisecond)
				if adv > 0 {
					zsim.Sleep(adv + jitter())
				}
			}
		})
	}
	if !r.WaitFor(time.Hour, time.Second, func() bool { return done == tasks }) {
		r.Failf("callers-blocked", "callers blocked: %v", r.Alive(false))
		return
	}
	if sawFailure && sawReject {
		r.NonTrivial()
	}
	_ = names
}
