//go:build verif

package clientinterceptors

import (
	"context"
	"fmt"
	"sync"
	"testing"
	"time"

	"github.com/gotid/god/internal/zsim"
	"github.com/gotid/god/lib/breaker"
	"github.com/gotid/god/lib/logx"
	"github.com/gotid/god/lib/timex"
	"google.golang.org/grpc"
	"google.golang.org/grpc/codes"
	"google.golang.org/grpc/credentials/insecure"
	"google.golang.org/grpc/status"
)

// C01 (gRPC client integration) - the client-side breaker interceptor keeps
// one breaker per target+method; results with gRPC codes other than the five
// never move it towards open, the five do, a rejected call never reaches the
// invoker, and a method's open breaker does not cut off another method.
// Real: clientinterceptors.BreakerInterceptor, rpc/internal/codes.Acceptable,
// lib/breaker registry. Stub: the invoker (scripted status codes); the
// *grpc.ClientConn is a real, never connected one created outside the bubble
// (only its Target() is read).

func init() { logx.Disable() }

var (
	c01ConnOnce sync.Once
	c01Conn     *grpc.ClientConn
)

func TestZsimC01RpcClient(t *testing.T) {
	zsim.Main(t, zsim.Harness{
		Property: "C01", Name: "breaker-rpc-client",
		Run:     c01RpcClientRun,
		Horizon: time.Hour,
		Setup: func() {
			c01ConnOnce.Do(func() {
				c01Conn, _ = grpc.Dial("passthrough:///127.0.0.1:1", grpc.WithTransportCredentials(insecure.NewCredentials()))
			})
		},
		Rule: "1-3 caller tasks send 60-200 invoker results with benign gRPC codes (every code except the five, and nil) for method A through the client breaker interceptor while the random source rejects at any positive drop ratio: every call must reach the invoker; after 11 s, results with one of the five codes must make A reject within 12 calls without reaching the invoker, while method B on the same target is still admitted; distinct = distinct event-log fingerprint",
		Real: []string{"rpc/internal/clientinterceptors.BreakerInterceptor", "rpc/internal/codes.Acceptable", "lib/breaker (named registry, first use from concurrent callers)"},
		Stub: []string{"gRPC invoker returning scripted status codes", "*grpc.ClientConn: real but never connected, created outside the bubble (Target() only)"},
	})
}

func c01RpcClientRun(r *zsim.Run) {
	timex.ZsimReset()
	breaker.ZsimReset()
	r.RandMode = 1
	o := r.Ops
	if c01Conn == nil {
		r.Failf("harness-setup", "no client connection")
		return
	}
	methodA := fmt.Sprintf("/svc.%d/A", r.Seed)
	methodB := fmt.Sprintf("/svc.%d/B", r.Seed)
	bad := []codes.Code{codes.DeadlineExceeded, codes.Internal, codes.Unavailable, codes.DataLoss, codes.Unimplemented}
	isBad := map[codes.Code]bool{}
	for _, c := range bad {
		isBad[c] = true
	}
	var benign []codes.Code
	for c := codes.OK; c <= codes.Unauthenticated; c++ {
		if !isBad[c] {
			benign = append(benign, c)
		}
	}
	call := func(method string, code codes.Code, dur time.Duration) (err error, reached bool) {
		err = BreakerInterceptor(context.Background(), method, nil, nil, c01Conn,
			func(ctx context.Context, m string, req, reply interface{}, cc *grpc.ClientConn, opts ...grpc.CallOption) error {
				reached = true
				if dur > 0 {
					zsim.Sleep(dur)
				}
				if code == codes.OK {
					return nil
				}
				return status.Error(code, "scripted")
			})
		return
	}
	// most runs stay with one benign code: a code wrongly counted as a failure then has nothing to hide behind
	focus, focused := benign[o.Intn(len(benign))], o.Intn(3) > 0
	r.Logf("client breaker: focus code %v (%v)", focus, focused)
	tasks := 1 + o.Intn(3)
	done := 0
	for t := 0; t < tasks; t++ {
		n := 60 + o.Intn(140)/tasks
		r.Go(fmt.Sprintf("caller%d", t), func() {
			defer func() { done++ }()
			for i := 0; i < n && !r.Failed(); i++ {
				c := benign[o.Intn(len(benign))]
				if focused {
					c = focus
				}
				err, reached := call(methodA, c, time.Duration(zsim.Pick(o, 0, 0, 1, 20))*time.Millisecond)
				if err == breaker.ErrServiceUnavailable || !reached {
					r.Failf("benign-outcome-trips-breaker", "after results with benign gRPC codes only, the client breaker of %s rejected a call (last code %v, err %v)", methodA, c, err)
					return
				}
				if status.Code(err) != c {
					r.Failf("wrong-result", "the invoker returned code %v but the caller received %v", c, err)
					return
				}
			}
		})
	}
	if !r.WaitFor(time.Hour, time.Second, func() bool { return done == tasks }) {
		r.Failf("callers-blocked", "callers blocked: %v", r.Alive(false))
		return
	}
	if r.Failed() {
		return
	}
	if tasks > 1 {
		r.NonTrivial()
	}
	zsim.Sleep(11 * time.Second)
	rejected := false
	for i := 0; i < 12; i++ {
		c := bad[o.Intn(len(bad))]
		err, reached := call(methodA, c, 0)
		if err == breaker.ErrServiceUnavailable {
			if reached {
				r.Failf("rejected-call-ran", "the client breaker rejected the call with ErrServiceUnavailable after the invoker had run")
				return
			}
			rejected = true
			r.Probe("rpc_client_breaker_opened")
			break
		}
		if !reached {
			r.Failf("wrong-result", "the call returned %v without reaching the invoker", err)
			return
		}
	}
	r.FaultFired("unacceptable-grpc-code")
	if !rejected {
		r.Failf("breaker-not-tripped", "12 consecutive results with DeadlineExceeded/Internal/Unavailable/DataLoss/Unimplemented did not open the client breaker of %s", methodA)
		return
	}
	r.NonTrivial()
	// another method of the same target has its own breaker
	if err, reached := call(methodB, codes.OK, 0); err != nil || !reached {
		r.Failf("breaker-shared-between-methods", "method %s failed only itself, yet a call of %s on the same target returned %v (reached the invoker: %v)", methodA, methodB, err, reached)
	}
}
