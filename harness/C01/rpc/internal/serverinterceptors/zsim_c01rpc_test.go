//go:build verif

package serverinterceptors

import (
	"context"
	"fmt"
	"testing"
	"time"

	"github.com/gotid/god/internal/zsim"
	"github.com/gotid/god/lib/breaker"
	"github.com/gotid/god/lib/logx"
	"github.com/gotid/god/lib/timex"
	"google.golang.org/grpc"
	"google.golang.org/grpc/codes"
	"google.golang.org/grpc/status"
)

// C01 (gRPC integration) - gRPC codes other than DeadlineExceeded, Internal,
// Unavailable, DataLoss, Unimplemented never move a method's breaker towards
// open; those five do. Real: UnaryBreakerInterceptor, StreamBreakerInterceptor,
// rpc/internal/codes.Acceptable, lib/breaker registry.

func init() { logx.Disable() }

func TestZsimC01Rpc(t *testing.T) {
	zsim.Main(t, zsim.Harness{
		Property: "C01", Name: "breaker-rpc",
		Run:     c01RpcRun,
		Horizon: time.Hour,
		Rule:    "200 handler results with benign gRPC codes (every code except the five) through the unary or stream breaker interceptor, random source steered to reject at any positive drop ratio: the next call must reach the handler; then 12 results with one of the five codes must make it reject; distinct = distinct event-log fingerprint",
		Real:    []string{"rpc/internal/serverinterceptors Unary/StreamBreakerInterceptor", "rpc/internal/codes.Acceptable", "lib/breaker (named registry)"},
		Stub:    []string{"gRPC handlers returning scripted status codes"},
	})
}

func c01RpcRun(r *zsim.Run) {
	timex.ZsimReset()
	breaker.ZsimReset()
	r.RandMode = 1
	o := r.Ops
	r.NonTrivial()
	method := fmt.Sprintf("/svc.%d/Method", r.Seed)
	stream := o.Intn(3) == 0
	bad := map[codes.Code]bool{codes.DeadlineExceeded: true, codes.Internal: true, codes.Unavailable: true, codes.DataLoss: true, codes.Unimplemented: true}
	var benign []codes.Code
	for c := codes.OK; c <= codes.Unauthenticated; c++ {
		if !bad[c] {
			benign = append(benign, c)
		}
	}
	ran := 0
	call := func(code codes.Code) error {
		h := func() error {
			ran++
			if code == codes.OK {
				return nil
			}
			return status.Error(code, "scripted")
		}
		if stream {
			return StreamBreakerInterceptor(nil, nil, &grpc.StreamServerInfo{FullMethod: method}, func(interface{}, grpc.ServerStream) error { return h() })
		}
		_, err := UnaryBreakerInterceptor(context.Background(), nil, &grpc.UnaryServerInfo{FullMethod: method}, func(context.Context, interface{}) (interface{}, error) { return nil, h() })
		return err
	}
	// most runs stay with one benign code: a code wrongly counted as a failure then has nothing to hide behind
	focus, focused := benign[o.Intn(len(benign))], o.Intn(3) > 0
	r.Logf("rpc breaker integration stream=%v focus=%v (%v)", stream, focus, focused)
	for i := 0; i < 200; i++ {
		c := benign[o.Intn(len(benign))]
		if focused {
			c = focus
		}
		n := ran
		err := call(c)
		if err == breaker.ErrServiceUnavailable || ran == n {
			r.Failf("benign-outcome-trips-breaker", "after %d results with benign gRPC codes the method's breaker rejected a call (last code %v)", i, c)
			return
		}
	}
	zsim.Sleep(11 * time.Second)
	rejected := false
	for i := 0; i < 12; i++ {
		var c codes.Code
		for cc := range bad {
			if o.Intn(2) == 0 || c == 0 {
				c = cc
			}
		}
		c = []codes.Code{codes.DeadlineExceeded, codes.Internal, codes.Unavailable, codes.DataLoss, codes.Unimplemented}[o.Intn(5)]
		n := ran
		err := call(c)
		if err == breaker.ErrServiceUnavailable && ran == n {
			rejected = true
			r.Probe("rpc_breaker_opened_after_" + fmt.Sprint(i))
			break
		}
	}
	if !rejected {
		r.Failf("breaker-not-tripped", "12 consecutive results with DeadlineExceeded/Internal/Unavailable/DataLoss/Unimplemented did not open the method's breaker")
	}
	r.FaultFired("unacceptable-grpc-code")
}
