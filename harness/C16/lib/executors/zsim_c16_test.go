//go:build verif

package executors

import (
	"fmt"
	"testing"
	"time"

	"github.com/gotid/god/internal/zsim"
	"github.com/gotid/god/lib/logx"
	"github.com/gotid/god/lib/timex"
)

// C16 - batching executors run every added task exactly once. Real:
// PeriodicalExecutor, BulkExecutor, ChunkExecutor, syncx.Barrier, threading,
// the timex ticker on the simulated clock. Stub: execute callbacks (may
// sleep), adder/flusher/waiter tasks.

func init() { logx.Disable() }

type c16Task struct {
	adder, n int
	size     int
	addInv   int64
	addRet   int64
	execEnd  int64 // 0 while not executed
	execBeg  int64 // 0 while not started
	execs    int
}

type c16Wait struct{ inv, ret int64 }

func TestZsimC16(t *testing.T) {
	zsim.Main(t, zsim.Harness{
		Property: "C16", Name: "executors",
		Run:      c16Run,
		Horizon:  time.Hour,
		MaxSteps: 60000,
		Rule:     "bulk / chunk / plain periodical executor with drawn thresholds (1,2,3,10 tasks; 8,64 bytes) and interval (10ms,1s); 1-3 adder tasks add uniquely numbered tasks with drawn pauses (including idle gaps of more than ten intervals so that the background flusher retires), plus a flusher task and a waiter task; execute callbacks may sleep; non-trivial = at least two tasks (adders, flusher, waiter) overlapped or the flusher retired and was restarted; distinct = distinct event-log fingerprint",
		Real:     []string{"lib/executors PeriodicalExecutor, BulkExecutor, ChunkExecutor (instrumented)", "lib/syncx.Barrier", "lib/threading", "lib/timex ticker on the simulated clock"},
		Stub:     []string{"execute callbacks (record batch, may sleep)", "adder, flusher and waiter tasks"},
	})
}

type c16Plain struct {
	tasks   []any
	max     int
	execute func([]any)
}

func (c *c16Plain) AddTask(task any) bool {
	c.tasks = append(c.tasks, task)
	return len(c.tasks) >= c.max
}
func (c *c16Plain) Execute(tasks any) { c.execute(tasks.([]any)) }
func (c *c16Plain) RemoveAll() any    { t := c.tasks; c.tasks = nil; return t }

func c16Run(r *zsim.Run) {
	timex.ZsimReset()
	o := r.Ops
	kind := o.Intn(3) // 0 bulk 1 chunk 2 plain periodical
	interval := zsim.Pick(o, 10*time.Millisecond, time.Second)
	maxTasks := zsim.Pick(o, 2, 1, 3, 10)
	maxBytes := zsim.Pick(o, 8, 64)
	adders := 1 + o.Intn(3)
	if r.Tier == "thorough" && o.Intn(4) == 0 {
		adders = 4 + o.Intn(3) // the thorough tier also draws larger runs
	}
	var all []*c16Task
	var waits []*c16Wait
	var batches [][]*c16Task
	running := 0
	execute := func(tasks []any) {
		running++
		defer func() { running-- }()
		var b []*c16Task
		for _, t := range tasks {
			b = append(b, t.(*c16Task))
		}
		beg := r.Seq()
		for _, t := range b {
			t.execBeg = beg
		}
		r.Logf("execute batch %s", c16Names(b))
		if d := zsim.Pick(o, 0, 0, 1, 5, 30); d > 0 {
			zsim.Sleep(time.Duration(d) * time.Millisecond)
		}
		// the consumer reads the batch while it works on it: what it holds at the end is what was processed
		var now []*c16Task
		for _, t := range tasks {
			now = append(now, t.(*c16Task))
		}
		if c16Names(now) != c16Names(b) {
			r.Failf("batch-changed-during-execution", "the batch handed to execute was %s and became %s while execute was still running", c16Names(b), c16Names(now))
		}
		batches = append(batches, now)
		end := r.Seq()
		for _, t := range now {
			t.execs++
			t.execEnd = end
		}
	}
	var add func(t *c16Task)
	var flush, wait func()
	var pe *PeriodicalExecutor
	var pending func() []any
	switch kind {
	case 0:
		be := NewBulkExecutor(execute, WithBulkTasks(maxTasks), WithBulkInterval(interval))
		pe = be.executor
		pending = func() []any { return be.container.tasks }
		add, flush, wait = func(t *c16Task) { be.Add(t) }, be.Flush, be.Wait
	case 1:
		ce := NewChunkExecutor(execute, WithChunkBytes(maxBytes), WithFlushInterval(interval))
		pe = ce.executor
		pending = func() []any { return ce.container.tasks }
		add, flush, wait = func(t *c16Task) { ce.Add(t, t.size) }, ce.Flush, ce.Wait
	default:
		pc := &c16Plain{max: maxTasks, execute: execute}
		pending = func() []any { return pc.tasks }
		pe = NewPeriodicalExecutor(interval, pc)
		add, flush, wait = func(t *c16Task) { pe.Add(t) }, func() { pe.Flush() }, pe.Wait
	}
	if r.Fault.Intn(3) == 2 {
		// some runs stall tasks at arbitrary scheduling points for up to 40 intervals
		r.StallOdds = 150
		r.StallUnit = interval
	}
	r.Logf("kind=%d interval=%v maxTasks=%d maxBytes=%d adders=%d stalls=%v", kind, interval, maxTasks, maxBytes, adders, r.StallOdds > 0)
	// evaluated the moment a Wait returns (no other task runs in between)
	checkWait := func(wt *c16Wait) bool {
		for _, t := range all {
			if t.addRet == 0 || t.addRet >= wt.inv || t.execEnd != 0 {
				continue
			}
			inContainer := false
			for _, p := range pending() {
				if p == any(t) {
					inContainer = true
				}
			}
			switch {
			case inContainer:
				r.Failf("wait-did-not-flush", "Wait (seq %d..%d) returned while task %d.%d, whose Add had returned at seq %d, was still sitting in the container", wt.inv, wt.ret, t.adder, t.n, t.addRet)
			case t.execBeg != 0:
				r.Failf("wait-ignores-running-execution", "Wait (seq %d..%d) returned while the execute call holding task %d.%d (Add returned at seq %d) was still running", wt.inv, wt.ret, t.adder, t.n, t.addRet)
			default:
				// the recorded finding needs an Add that reached the threshold and is still blocked handing its
				// batch to the flusher; without such an Add in progress the batch was lost from view some other way
				handing := false
				for _, u := range all {
					if u.addInv != 0 && u.addRet == 0 {
						handing = true
					}
				}
				if !handing {
					r.Failf("wait-misses-taken-batch", "Wait (seq %d..%d) returned before task %d.%d, whose Add had returned at seq %d, was executed: no Add was in progress, the task was neither in the container nor being executed, so a Flush or tick had taken its batch without registering the execution first", wt.inv, wt.ret, t.adder, t.n, t.addRet)
					return false
				}
				r.Failf("wait-misses-inflight-batch", "Wait (seq %d..%d) returned before task %d.%d, whose Add had returned at seq %d, was executed: its batch had been taken out of the container by a threshold-triggered Add and was still on its way to the background flusher, where Wait does not see it", wt.inv, wt.ret, t.adder, t.n, t.addRet)
			}
			return false
		}
		return true
	}
	active := 0
	finished := 0
	enter := func() {
		active++
		if active > 1 {
			r.NonTrivial()
		}
	}
	leave := func() { active-- }
	parties := adders
	for a := 0; a < adders; a++ {
		a := a
		n := 1 + o.Intn(7)
		r.Go(fmt.Sprintf("adder%d", a), func() {
			defer func() { finished++ }()
			for i := 0; i < n; i++ {
				t := &c16Task{adder: a, n: i, size: 1 + o.Intn(12)}
				all = append(all, t)
				enter()
				t.addInv = r.Seq()
				add(t)
				t.addRet = r.Seq()
				leave()
				r.Logf("added %d.%d size %d", a, i, t.size)
				switch o.Intn(6) {
				case 0:
					zsim.Sleep(interval / 3)
				case 1:
					zsim.Sleep(interval * 2)
				case 2:
					// idle long enough for the background flusher to retire
					zsim.Sleep(interval * time.Duration(12+o.Intn(6)))
					if !pe.guarded {
						r.Probe("flusher_retired_then_add")
						r.NonTrivial()
					}
				}
			}
		})
	}
	if o.Intn(2) == 1 {
		parties++
		r.Go("flusher", func() {
			defer func() { finished++ }()
			for i := 0; i < 1+o.Intn(3); i++ {
				zsim.Sleep(time.Duration(o.Intn(int(3*interval/time.Millisecond)+1)) * time.Millisecond)
				enter()
				flush()
				leave()
				r.Logf("flushed")
			}
		})
	}
	if o.Intn(2) == 1 {
		parties++
		r.Go("waiter", func() {
			defer func() { finished++ }()
			for i := 0; i < 1+o.Intn(2); i++ {
				zsim.Sleep(time.Duration(o.Intn(int(4*interval/time.Millisecond)+1)) * time.Millisecond)
				w := &c16Wait{inv: r.Seq()}
				enter()
				wait()
				leave()
				w.ret = r.Seq()
				waits = append(waits, w)
				r.Logf("wait returned")
				if !checkWait(w) {
					return
				}
			}
		})
	}
	if !r.WaitFor(30*time.Minute, interval, func() bool { return finished == parties }) {
		r.Failf("workload-blocked", "adders/flusher/waiter are blocked inside the executor: %v", r.Alive(false))
		return
	}
	if o.Intn(2) == 0 {
		// nobody calls Flush or Wait any more: the periodic tick (or the retiring flusher) must still get every
		// task that was handed in executed
		allDone := func() bool {
			for _, t := range all {
				if t.addRet != 0 && t.execs == 0 {
					return false
				}
			}
			return true
		}
		if !r.WaitFor(200*interval, interval, allDone) {
			for _, t := range all {
				if t.addRet != 0 && t.execs == 0 {
					r.Failf("task-stranded", "task %d.%d was handed in at seq %d; 200 intervals later, without any further Add, Flush or Wait, it has not been executed (background flusher alive: %v, tasks in the container: %d)", t.adder, t.n, t.addRet, pe.guarded, len(pending()))
					return
				}
			}
		}
		r.Probe("idle_tail_observed")
	}
	w := &c16Wait{inv: r.Seq()}
	wait()
	w.ret = r.Seq()
	waits = append(waits, w)
	r.Logf("final wait returned")
	if r.Failed() || !checkWait(w) {
		return
	}
	// oracle
	for _, t := range all {
		if t.execs > 1 {
			r.Failf("task-executed-twice", "task %d.%d was passed to execute %d times", t.adder, t.n, t.execs)
			return
		}
	}
	for _, t := range all {
		if t.execs == 0 {
			r.Failf("task-lost", "task %d.%d was added but never executed although the final Wait returned (running executes: %d)", t.adder, t.n, running)
			return
		}
	}
	for _, b := range batches {
		last := map[int]int{}
		size := 0
		for i, t := range b {
			if prev, ok := last[t.adder]; ok && prev > t.n {
				r.Failf("batch-order", "batch %s holds adder %d's tasks out of their add order", c16Names(b), t.adder)
				return
			}
			last[t.adder] = t.n
			for _, u := range b[:i] {
				if t.addRet < u.addInv {
					r.Failf("batch-order", "batch %s: task %d.%d was added (returned) before %d.%d was even handed in, but comes after it", c16Names(b), t.adder, t.n, u.adder, u.n)
					return
				}
			}
			size += t.size
		}
		switch kind {
		case 0, 2:
			if len(b) > maxTasks {
				r.Failf("batch-too-large", "batch of %d tasks with a limit of %d", len(b), maxTasks)
				return
			}
		case 1:
			if len(b) > 0 && size-b[len(b)-1].size >= maxBytes {
				r.Failf("chunk-too-large", "chunk of %d bytes exceeds the limit %d by more than its last task (%d bytes)", size, maxBytes, b[len(b)-1].size)
				return
			}
		}
	}
}

func c16Names(b []*c16Task) string {
	s := "["
	for i, t := range b {
		if i > 0 {
			s += " "
		}
		s += fmt.Sprintf("%d.%d", t.adder, t.n)
	}
	return s + "]"
}
