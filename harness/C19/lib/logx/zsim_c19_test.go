//go:build verif

package logx

import (
	"bytes"
	"compress/gzip"
	"fmt"
	"io"
	"os"
	"path/filepath"
	"sort"
	"strings"
	"testing"
	"time"

	"github.com/gotid/god/internal/zsim"
)

// C19 - rotating log files lose no lines and delete only outdated backups.
// Real: logx.RotateLogger, DailyRotateRule, SizeLimitRotateRule,
// compressLogFile/gzipFile, real files in a per-run directory. Stub: the
// producer and the calendar (simulated clock).

func TestZsimC19(t *testing.T) {
	Disable()
	zsim.Main(t, zsim.Harness{
		Property: "C19", Name: "rotatelogger",
		Run:     c19Run,
		Horizon: 24 * 40 * time.Hour,
		Rule:    "records with unique ids and drawn sizes written through RotateLogger under the daily rule (days 0/1/3) or the size rule (byte limits through the in-package struct, maxBackups 0/1/3), gzip on/off, two delimiters, pre-existing backups of drawn ages, clock advanced by seconds / days between writes; in a third of the runs the writer goroutine takes a second per record (slow disk) and bursts of 3..110 records are queued behind it and inspected one by one as they are worked off; with gzip, in half of the runs compression takes 1.5-4 s so that the next rotation's clean-up overlaps it; directory inspected after every step at quiescence; non-trivial = at least one rotation happened; distinct = distinct event-log fingerprint",
		Real:    []string{"lib/logx.RotateLogger (worker goroutine, rotate, postRotate goroutine)", "DailyRotateRule", "SizeLimitRotateRule", "gzipFile", "real files (os.*)"},
		Stub:    []string{"record producer", "calendar: simulated clock (day changes, >= 1s between size rotations)", "in slow-compression runs gzipFile is replaced through a seam by an equivalent that waits between writing the .gz and removing the original"},
	})
}

type c19File struct {
	recs     []string
	firstDay time.Time // when the harness first saw it (pre-existing: its nominal date)
	stamp    time.Time // date encoded in the name
	size     int64
	lastLen  int
}

func c19Read(path string) ([]byte, error) {
	b, err := os.ReadFile(path)
	if err != nil {
		return nil, err
	}
	if strings.HasSuffix(path, ".gz") {
		zr, err := gzip.NewReader(bytes.NewReader(b))
		if err != nil {
			return nil, err
		}
		return io.ReadAll(zr)
	}
	return b, nil
}

// c19SlowRule answers the writer's "shall I rotate" after a while: a slow disk, as seen from the writer goroutine.
type c19SlowRule struct {
	RotateRule
	d time.Duration
}

func (s *c19SlowRule) ShallRotate(size int64) bool {
	zsim.Sleep(s.d)
	return s.RotateRule.ShallRotate(size)
}

func c19Run(r *zsim.Run) {
	o := r.Ops
	base := os.Getenv("ZSIM_TMP")
	dir, err := os.MkdirTemp(base, "c19-")
	if err != nil {
		r.Failf("harness-tmpdir", "%v", err)
		return
	}
	defer os.RemoveAll(dir)
	sizeRule := o.Intn(2) == 1
	gz := o.Intn(3) == 1
	delim := zsim.Pick(o, "-", "_", "+", "#", ".", "")
	days := zsim.Pick(o, 0, 1, 3)
	maxBackups := zsim.Pick(o, 0, 1, 3)
	maxSize := int64(zsim.Pick(o, 200, 64, 1000))
	filename := filepath.Join(dir, "app.log")
	if o.Intn(4) == 0 {
		// the same file in a spelling that is not canonical (the rules compare names with what Glob returns)
		filename = dir + zsim.Pick(o, "/./app.log", "//app.log")
		r.Probe("non_canonical_file_name")
	}
	// start somewhere inside a day
	zsim.Sleep(time.Duration(o.Intn(86000)) * time.Second)
	now := func() time.Time { return time.Now() }
	files := map[string]*c19File{} // backups ever seen
	// pre-existing backups
	npre := o.Intn(4)
	for i := 0; i < npre; i++ {
		age := 1 + o.Intn(6)
		ts := now().Add(-time.Duration(age) * 24 * time.Hour).Add(-time.Duration(i) * time.Second)
		var name string
		if sizeRule {
			name = filepath.Join(dir, fmt.Sprintf("app%s%s.log", delim, ts.Format(fileTimeFormat)))
		} else {
			name = fmt.Sprintf("%s%s%s", filename, delim, ts.Format(dateFormat))
		}
		content := []byte(fmt.Sprintf("old backup %d\n", i))
		if gz {
			var buf bytes.Buffer
			zw := gzip.NewWriter(&buf)
			zw.Write(content)
			zw.Close()
			content = buf.Bytes()
			name += gzipExt
		}
		os.WriteFile(name, content, 0o600)
		// restored / copied backups: the modification time says nothing about the period the file covers
		mt := now().Add(-time.Duration(1+o.Intn(200)) * time.Hour).Add(time.Duration(i) * time.Minute)
		os.Chtimes(name, mt, mt)
	}
	// a slow disk: in some runs the writer goroutine takes a second per record (the rule's size question is where
	// it waits), so that records queue up behind it while time passes; and compressing a backup takes a few
	// seconds, so that the next rotation's clean-up finds the previous backup both compressed and not yet removed
	slowWriter := o.Intn(3) == 0
	slowGzip := gz && o.Intn(2) == 0
	gzBusy := 0
	ZsimSeam_gzipFile = nil
	if slowGzip {
		gzTakes := time.Duration(zsim.Pick(o, 1500, 2500, 4000)) * time.Millisecond
		ZsimSeam_gzipFile = func(file string) error {
			gzBusy++
			defer func() { gzBusy-- }()
			in, err := os.ReadFile(file)
			if err != nil {
				return err
			}
			var buf bytes.Buffer
			zw := gzip.NewWriter(&buf)
			zw.Write(in)
			zw.Close()
			if err := os.WriteFile(file+gzipExt, buf.Bytes(), 0o600); err != nil {
				return err
			}
			r.Probe("backup_compressed_and_uncompressed_for_a_while")
			zsim.Sleep(gzTakes) // the compressed copy is complete, the original is still there
			return os.Remove(file)
		}
		defer func() { ZsimSeam_gzipFile = nil }()
	}
	wrap := func(rl RotateRule) RotateRule {
		if slowWriter {
			return &c19SlowRule{rl, time.Second}
		}
		return rl
	}
	var rule RotateRule
	if sizeRule {
		rule = &SizeLimitRotateRule{
			DailyRotateRule: DailyRotateRule{rotatedTime: getNowDateInRFC3339Format(), filename: filename, delimiter: delim, days: days, gzip: gz},
			maxSize:         maxSize, maxBackups: maxBackups,
		}
	} else {
		rule = DefaultRotateRule(filename, delim, days, gz)
	}
	r.Logf("rule size=%v gzip=%v delim=%q days=%d maxBackups=%d maxSize=%d pre=%d start=%s slowWriter=%v slowGzip=%v", sizeRule, gz, delim, days, maxBackups, maxSize, npre, now().Format(time.RFC3339), slowWriter, slowGzip)
	l, err := NewLogger(filename, wrap(rule), gz)
	if err != nil {
		r.Failf("constructor", "NewLogger: %v", err)
		return
	}
	if sizeRule {
		// backup names have one-second resolution: keep creation and first rotation a second apart
		zsim.Sleep(time.Second)
	}
	periodStart := now() // when the current log file was started (creation or last rotation)
	var prevCur []string // records in the current file at the last inspection
	var written []string
	recLen := map[string]int{}
	goneOK := map[string]bool{} // records that were in a legitimately removed backup
	rotations := 0

	stampOf := func(name string) (time.Time, bool) {
		b := filepath.Base(name)
		b = strings.TrimSuffix(b, gzipExt)
		if sizeRule {
			b = strings.TrimSuffix(strings.TrimPrefix(b, "app"+delim), ".log")
			t, err := time.ParseInLocation(fileTimeFormat, b, time.Local)
			return t, err == nil
		}
		b = strings.TrimPrefix(b, "app.log"+delim)
		t, err := time.ParseInLocation(dateFormat, b, time.Local)
		return t, err == nil
	}

	inspect := func(newRec string) bool {
		ents, err := os.ReadDir(dir)
		if err != nil {
			r.Failf("harness-readdir", "%v", err)
			return false
		}
		present := map[string]bool{}
		hasCurrent := false
		for _, e := range ents {
			if e.Name() == "app.log" {
				hasCurrent = true
				continue
			}
			name := e.Name()
			present[name] = true
			key := strings.TrimSuffix(name, gzipExt)
			f := files[key]
			if f == nil {
				f = &c19File{firstDay: now()}
				if st, ok := stampOf(name); ok {
					f.stamp = st
				}
				files[key] = f
				rotations++
			}
			// (re-)read: the content of a backup must never change once written
			b, err := c19Read(filepath.Join(dir, name))
			if err != nil {
				r.Failf("backup-unreadable", "backup %s cannot be read: %v", name, err)
				return false
			}
			var recs []string
			for _, ln := range strings.SplitAfter(string(b), "\n") {
				if strings.HasPrefix(ln, "rec-") {
					recs = append(recs, ln)
				}
			}
			if f.recs != nil && strings.Join(f.recs, "") != strings.Join(recs, "") {
				r.Failf("backup-changed", "the content of backup %s changed after it was rotated away", name)
				return false
			}
			if f.recs == nil {
				f.recs = append([]string{}, recs...)
				f.size = int64(len(b))
				if len(recs) > 0 {
					f.lastLen = len(recs[len(recs)-1])
				}
			}
		}
		if !hasCurrent {
			r.Failf("current-file-missing", "the current log file does not exist after a step (files: %v)", present)
			return false
		}
		// the current file: either the previous content plus the new record, or
		// (after a rotation) only the new record, the previous content being in a backup
		cb, _ := os.ReadFile(filename)
		var cur []string
		for _, ln := range strings.SplitAfter(string(cb), "\n") {
			if strings.HasPrefix(ln, "rec-") {
				cur = append(cur, ln)
			}
		}
		grown := append(append([]string{}, prevCur...), newRec)
		if newRec == "" {
			grown = prevCur
		}
		switch {
		case strings.Join(cur, "") == strings.Join(grown, ""):
		case len(prevCur) > 0 && (newRec == "" && len(cur) == 0 || len(cur) == 1 && cur[0] == newRec):
			// rotated: prevCur must be in a backup, unless that backup was legitimately removed at once
			found := false
			for _, f := range files {
				if strings.Join(f.recs, "") == strings.Join(prevCur, "") && f.size >= 0 {
					found = true
				}
			}
			if !found {
				legit := false
				if days > 0 {
					boundary := now().Add(-time.Duration(days) * 24 * time.Hour)
					if sizeRule {
						legit = periodStart.Before(boundary.Add(time.Second))
					} else {
						legit = periodStart.Format(dateFormat) < boundary.Format(dateFormat)
					}
				}
				if !legit {
					r.Failf("rotated-records-vanished", "a rotation moved %d record(s) (first %q) out of the current file but no backup holds them, and a backup started at %s is not older than the retention (%d days) at %s", len(prevCur), strings.TrimSpace(prevCur[0]), periodStart.Format(time.RFC3339), days, now().Format(time.RFC3339))
					return false
				}
				r.Probe("backup_born_outdated")
				for _, rec := range prevCur {
					goneOK[rec] = true
				}
				rotations++
			}
			periodStart = now()
		default:
			r.Failf("current-file-corrupt", "the current file holds %d records %v after the step; expected the previous %d plus %q, or only the new one after a rotation", len(cur), trimAll(cur), len(prevCur), strings.TrimSpace(newRec))
			return false
		}
		prevCur = cur
		// backups that disappeared: was that legitimate?
		var keys []string
		for k := range files {
			keys = append(keys, k)
		}
		sort.Strings(keys)
		var live []string
		for _, k := range keys {
			if present[k] || present[k+gzipExt] {
				live = append(live, k)
			}
		}
		for _, k := range keys {
			f := files[k]
			if present[k] || present[k+gzipExt] || f.size < 0 {
				continue
			}
			legit := false
			why := ""
			if days > 0 && !f.stamp.IsZero() {
				boundary := now().Add(-time.Duration(days) * 24 * time.Hour)
				// "older than the retention": strictly older; a backup exactly `days` old is kept
				if sizeRule {
					if f.stamp.Before(boundary.Truncate(time.Second)) {
						legit = true
					}
				} else if f.stamp.Format(dateFormat) < boundary.Format(dateFormat) {
					legit = true
				}
				why += fmt.Sprintf(" dated %s, retention boundary %s;", f.stamp.Format(time.RFC3339), boundary.Format(time.RFC3339))
			}
			if sizeRule && maxBackups > 0 {
				// legitimate if at least maxBackups newer backups exist
				newer := 0
				for _, lk := range live {
					if lk > k {
						newer++
					}
				}
				if newer >= maxBackups {
					legit = true
				}
				why += fmt.Sprintf(" %d newer backups kept of max %d;", newer, maxBackups)
			}
			if !legit {
				r.Failf("recent-backup-deleted", "backup %s was removed although it is neither older than the retention (%d days) nor beyond maxBackups:%s", k, days, why)
				return false
			}
			r.Probe("backup_deleted_legitimately")
			for _, rec := range f.recs {
				goneOK[rec] = true
			}
			f.size = -1 // reported once
		}
		return true
	}

	finalCheck := func() {
		var keys []string
		for k := range files {
			keys = append(keys, k)
		}
		sort.Strings(keys)
		var got []string
		for _, k := range keys {
			f := files[k]
			if f.size < 0 {
				continue
			}
			got = append(got, f.recs...)
			if sizeRule && f.size-int64(f.lastLen) > maxSize {
				r.Failf("file-too-large", "backup %s holds %d bytes: more than the limit %d plus one record (%d)", k, f.size, maxSize, f.lastLen)
				return
			}
		}
		b, err := os.ReadFile(filename)
		if err != nil {
			r.Failf("current-file-missing", "%v", err)
			return
		}
		cur := 0
		lastLen := 0
		for _, ln := range strings.SplitAfter(string(b), "\n") {
			if strings.HasPrefix(ln, "rec-") {
				got = append(got, ln)
				cur++
				lastLen = len(ln)
			}
		}
		if sizeRule && int64(len(b))-int64(lastLen) > maxSize {
			r.Failf("file-too-large", "the current file holds %d bytes: more than the limit %d plus one record", len(b), maxSize)
			return
		}
		// got must equal written minus the legitimately removed records, in order, once
		seen := map[string]int{}
		for _, g := range got {
			seen[g]++
			if seen[g] > 1 {
				r.Failf("record-duplicated", "record %q appears %d times in the files", strings.TrimSpace(g), seen[g])
				return
			}
		}
		var want []string
		for _, w := range written {
			if seen[w] == 0 {
				if goneOK[w] {
					continue
				}
				r.Failf("record-lost", "record %q (number %d of %d written and processed before Close) is in no file, and no backup holding it was legitimately removed; %d rotation(s) happened", strings.TrimSpace(w), indexOf(written, w)+1, len(written), rotations)
				return
			}
			want = append(want, w)
		}
		if len(want) != len(got) {
			r.Failf("foreign-record", "files hold %d records, %d expected", len(got), len(want))
			return
		}
		for i := range want {
			if want[i] != got[i] {
				r.Failf("record-out-of-order", "position %d: file has %q, want %q", i, strings.TrimSpace(got[i]), strings.TrimSpace(want[i]))
				return
			}
		}
	}

	r.Quiesce()
	if !inspect("") {
		return
	}
	rotations = 0
	nsteps := 3 + o.Intn(12)
	if r.Tier == "thorough" && o.Intn(4) == 0 {
		nsteps = 30 + o.Intn(40) // the thorough tier also draws longer histories (more rotations, more clean-ups)
	}
	seq := 0
	reuseBuf := o.Intn(2) == 0
	var scratch []byte
	for s := 0; s < nsteps && !r.Failed(); s++ {
		step := o.Intn(7)
		if slowWriter && o.Intn(4) == 0 {
			step = 7
		}
		switch step {
		case 7:
			// a burst: a producer hands over k records at once (it waits only when the queue is full); the slow
			// writer works them off one a second, and the directory is inspected after each
			k := zsim.Pick(o, 3, 8, 20, 3, 8, 110)
			var recs []string
			for i := 0; i < k; i++ {
				seq++
				recs = append(recs, fmt.Sprintf("rec-%06d %s\n", seq, strings.Repeat("x", o.Intn(120))))
			}
			for _, rec := range recs {
				written = append(written, rec)
				recLen[rec] = len(rec)
			}
			r.Quiesce()
			queued := 0
			r.Go("producer", func() {
				for _, rec := range recs {
					if nw, err := l.Write([]byte(rec)); err != nil || nw != len(rec) {
						r.Failf("write-rejected", "Write on an open logger returned (%d, %v)", nw, err)
						return
					}
					queued++
				}
			})
			r.Probe(fmt.Sprintf("burst_of_%d", k))
			r.Logf("burst of %d records at %s", k, now().Format(time.RFC3339))
			zsim.Sleep(1500 * time.Millisecond)
			for _, rec := range recs {
				r.Quiesce()
				if r.Failed() || !inspect(rec) {
					return
				}
				zsim.Sleep(time.Second)
			}
			if queued != k {
				r.Failf("write-blocked", "the producer handed over %d of %d records although the writer has worked off all of them", queued, k)
				return
			}
			continue
		case 6: // the process restarts: the logger is closed and a new one is opened on the same, non-empty, file
			r.Quiesce()
			if err := l.Close(); err != nil {
				r.Failf("close-error", "Close returned %v", err)
				return
			}
			r.Quiesce()
			if sizeRule {
				rule = &SizeLimitRotateRule{
					DailyRotateRule: DailyRotateRule{rotatedTime: getNowDateInRFC3339Format(), filename: filename, delimiter: delim, days: days, gzip: gz},
					maxSize:         maxSize, maxBackups: maxBackups,
				}
			} else {
				rule = DefaultRotateRule(filename, delim, days, gz)
			}
			var err error
			if l, err = NewLogger(filename, wrap(rule), gz); err != nil {
				r.Failf("constructor", "NewLogger on the existing file: %v", err)
				return
			}
			r.Probe("restarted_on_existing_file")
			r.Logf("restarted at %s", now().Format(time.RFC3339))
			if sizeRule {
				zsim.Sleep(time.Second)
			}
		case 0: // time passes
			if sizeRule {
				zsim.Sleep(time.Duration(1+o.Intn(5)) * time.Second)
			} else {
				zsim.Sleep(time.Duration(1+o.Intn(30)) * time.Hour)
			}
		case 1: // a longer gap
			if sizeRule {
				zsim.Sleep(time.Duration(1+o.Intn(3)) * 24 * time.Hour)
			} else {
				zsim.Sleep(time.Duration(1+o.Intn(4)) * 24 * time.Hour)
			}
		default:
			n := 1 + o.Intn(4)
			for i := 0; i < n && !r.Failed(); i++ {
				seq++
				pad := o.Intn(120)
				rec := fmt.Sprintf("rec-%06d %s\n", seq, strings.Repeat("x", pad))
				var nw int
				var err error
				if reuseBuf {
					// an io.Writer must not retain the slice: the caller (fmt.Fprint does this) reuses its buffer as
					// soon as Write has returned
					scratch = append(scratch[:0], rec...)
					nw, err = l.Write(scratch)
					for j := range scratch {
						scratch[j] = '#'
					}
				} else {
					nw, err = l.Write([]byte(rec))
				}
				if err != nil || nw != len(rec) {
					r.Failf("write-rejected", "Write on an open logger returned (%d, %v)", nw, err)
					return
				}
				written = append(written, rec)
				recLen[rec] = len(rec)
				if slowWriter {
					zsim.Sleep(1500 * time.Millisecond)
				}
				r.Quiesce()
				r.Logf("wrote rec-%06d (%d bytes) at %s", seq, len(rec), now().Format(time.RFC3339))
				if !inspect(rec) {
					return
				}
				if sizeRule {
					// rotations at least a second apart (backup names have 1s resolution)
					zsim.Sleep(time.Second)
				}
			}
			continue
		}
		r.Quiesce()
		if !inspect("") {
			return
		}
	}
	r.Quiesce()
	for i := 0; gzBusy > 0 && i < 100; i++ {
		zsim.Sleep(time.Second)
	}
	cerr := l.Close()
	r.Logf("close -> %v; rotations=%d records=%d", cerr, rotations, len(written))
	r.Quiesce()
	if rotations > 0 {
		r.NonTrivial()
		r.Probe("rotated")
	}
	if !inspect("") {
		return
	}
	finalCheck()
	if !r.Failed() && cerr != nil {
		r.Failf("close-error", "Close returned %v", cerr)
	}
}

func indexOf(l []string, s string) int {
	for i, x := range l {
		if x == s {
			return i
		}
	}
	return -1
}

func trimAll(l []string) []string {
	out := make([]string, len(l))
	for i, x := range l {
		out[i] = strings.TrimSpace(x)
		if len(out[i]) > 12 {
			out[i] = out[i][:12]
		}
	}
	return out
}
