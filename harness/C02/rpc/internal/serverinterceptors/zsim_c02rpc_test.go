//go:build verif

package serverinterceptors

import (
	"context"
	"errors"
	"fmt"
	"testing"
	"time"

	"github.com/gotid/god/internal/zsim"
	"github.com/gotid/god/lib/breaker"
	"github.com/gotid/god/lib/logx"
	"github.com/gotid/god/lib/timex"
	"google.golang.org/grpc"
	"google.golang.org/grpc/codes"
	"google.golang.org/grpc/status"
)

// C02 (RPC half) - the unary RPC chain gives the REST guarantees with gRPC
// statuses: DeadlineExceeded/Canceled at the deadline (handler result
// discarded), Internal on panic. Real: UnaryCrashInterceptor,
// UnaryBreakerInterceptor, UnaryTimeoutInterceptor chained in the order of
// rpc/internal/server.go + rpc/server.go. Stub: the gRPC transport (the
// chain is called directly), handlers, clients.

func init() { logx.Disable() }

func TestZsimC02Rpc(t *testing.T) {
	zsim.Main(t, zsim.Harness{
		Property: "C02", Name: "rpc-chain",
		Run:      c02RpcRun,
		Horizon:  time.Hour,
		MaxSteps: 100000,
		Rule:     "timeout in {50ms,1s}; 1-4 client tasks call crash -> breaker -> timeout -> handler; handler scripts sleep (before / beyond the deadline, never exactly at it), return a value or an error, or panic; clients may cancel their context; non-trivial = a deadline, cancellation or panic occurred; distinct = distinct event-log fingerprint",
		Real:     []string{"rpc/internal/serverinterceptors UnaryCrashInterceptor, UnaryBreakerInterceptor, UnaryTimeoutInterceptor"},
		Stub:     []string{"gRPC transport (interceptor chain invoked directly, order mirrored from rpc/internal/server.go and rpc/server.go)", "handlers", "clients"},
	})
}

func c02Chain(final grpc.UnaryHandler, info *grpc.UnaryServerInfo, ints ...grpc.UnaryServerInterceptor) grpc.UnaryHandler {
	h := final
	for i := len(ints) - 1; i >= 0; i-- {
		in, next := ints[i], h
		h = func(ctx context.Context, req interface{}) (interface{}, error) { return in(ctx, req, info, next) }
	}
	return h
}

func c02RpcRun(r *zsim.Run) {
	timex.ZsimReset()
	breaker.ZsimReset()
	r.RandMode = 2 // the method breaker never rejects
	o, f := r.Ops, r.Fault
	timeout := zsim.Pick(o, time.Second, 50*time.Millisecond)
	// a server configured with Timeout 0 installs no timeout interceptor (rpc/server.go)
	noTimeout := o.Intn(4) == 0
	info := &grpc.UnaryServerInfo{FullMethod: fmt.Sprintf("/c02.%d/Call", r.Seed)}
	clients := 1 + o.Intn(4)
	done := 0
	errApp := status.Error(codes.NotFound, "app-error")
	// one interceptor for the life of the server, shared by every call (as rpc/server.go installs it)
	timeoutInt := UnaryTimeoutInterceptor(timeout)
	for c := 0; c < clients; c++ {
		c := c
		n := 1 + o.Intn(3)
		r.Go(fmt.Sprintf("client%d", c), func() {
			defer func() { done++ }()
			for i := 0; i < n && !r.Failed(); i++ {
				zsim.Sleep(time.Duration(o.Intn(30)) * time.Millisecond)
				d := zsim.Pick(o, time.Duration(0), time.Millisecond, timeout/2, timeout-3*time.Millisecond, timeout+7*time.Millisecond, 3*timeout)
				if noTimeout && d >= timeout {
					d = timeout / 2
				}
				pval := o.Intn(5)                // what a panicking handler panics with
				outcome := zsim.Pick(o, 0, 0, 1) // 0 value 1 app error
				if f.Intn(5) == 4 {
					outcome = 2 // panic
				}
				var cancelAt time.Duration
				if f.Intn(6) == 5 && !noTimeout {
					cancelAt = zsim.Pick(f, timeout/3+time.Millisecond, 2*time.Millisecond, timeout+20*time.Millisecond)
				}
				var finishedAt time.Duration = -1
				handler := func(ctx context.Context, req interface{}) (interface{}, error) {
					if d > 0 {
						zsim.Sleep(d)
					}
					finishedAt = r.Now()
					switch outcome {
					case 1:
						return nil, errApp
					case 2:
						switch pval {
						case 1:
							panic(status.Error(codes.NotFound, "panic-with-a-status-error"))
						case 2:
							panic(status.Error(codes.Unavailable, "panic-with-a-status-error"))
						case 3:
							panic(errors.New("panic-with-an-error"))
						case 4:
							// a panic is a panic whatever its value: recover() hands back nil for this one under
							// the module's language version (go 1.19)
							var none any
							panic(none)
						}
						panic("rpc-handler-panic")
					}
					return fmt.Sprintf("resp-%d-%d", c, i), nil
				}
				h := c02Chain(handler, info, UnaryCrashInterceptor, UnaryBreakerInterceptor, timeoutInt)
				if noTimeout {
					h = c02Chain(handler, info, UnaryCrashInterceptor, UnaryBreakerInterceptor)
				}
				ctx, cancel := context.WithCancel(context.Background())
				var cancelled time.Duration = -1
				if cancelAt > 0 {
					at := cancelAt
					r.Go("cancel", func() { zsim.Sleep(at); cancelled = r.Now(); cancel() })
				}
				t0 := r.Now()
				var resp interface{}
				var err error
				var panicked any
				func() {
					defer func() { panicked = recover() }()
					resp, err = h(ctx, "req")
				}()
				t1 := r.Now()
				cancel()
				// (the Internal error of a panic carries a stack trace with goroutine ids: log the code only)
				r.Logf("c%d call d=%v outcome=%d cancelAt=%v -> resp=%v code=%v panic=%v in %v", c, d, outcome, cancelAt, resp, status.Code(err), panicked != nil, t1-t0)
				if panicked != nil {
					r.Failf("panic-escapes-chain", "a handler panic escaped the interceptor chain: %v", panicked)
					return
				}
				if t1-t0 > timeout+time.Millisecond {
					r.Failf("response-late", "the call returned after %v with a timeout of %v", t1-t0, timeout)
					return
				}
				if d < timeout && (cancelAt == 0 || cancelAt > d+time.Millisecond) && t1-t0 > d+time.Millisecond {
					// nothing in these runs takes time except the handlers' own sleeps, and calls do not wait for
					// each other: a handler that needs d is answered after d
					r.Failf("response-withheld", "a handler that takes %v (timeout %v, no cancellation before that) was answered only after %v with code %v", d, timeout, t1-t0, status.Code(err))
					return
				}
				clientGone := cancelled >= 0 && cancelled <= t1
				inTime := finishedAt >= 0 && finishedAt <= t1 && t1-t0 < timeout && !clientGone
				code := status.Code(err)
				switch {
				case inTime && outcome == 0:
					if err != nil || resp != any(fmt.Sprintf("resp-%d-%d", c, i)) {
						r.Failf("result-differs-from-handler", "the handler returned its value in time but the caller got (%v, %v)", resp, err)
						return
					}
				case inTime && outcome == 1:
					if !errors.Is(err, errApp) && code != codes.NotFound {
						r.Failf("result-differs-from-handler", "the handler returned NotFound in time but the caller got (%v, %v)", resp, err)
						return
					}
				case inTime && outcome == 2:
					r.NonTrivial()
					if code != codes.Internal {
						r.Failf("panic-not-internal", "the handler panicked but the caller got (%v, code %v), want codes.Internal", resp, code)
						return
					}
				default:
					r.NonTrivial()
					if finishedAt >= 0 && finishedAt == t1 {
						continue // finished at the very instant of the deadline/cancellation: either answer is acceptable
					}
					want := codes.DeadlineExceeded
					if clientGone && t1-t0 < timeout {
						want = codes.Canceled
					}
					if resp != nil || code != want {
						r.Failf("wrong-timeout-status", "deadline/cancellation came first (client cancelled=%v) but the caller got (%v, %v), want nil response and %v", clientGone, resp, err, want)
						return
					}
				}
			}
		})
	}
	if !r.WaitFor(10*time.Minute, 100*time.Millisecond, func() bool { return done == clients }) {
		r.Failf("client-hangs", "callers are still waiting: %v", r.Alive(false))
	}
}
