//go:build verif

package api

import (
	"bytes"
	"context"
	"fmt"
	"net/http"
	"net/http/httptest"
	"strings"
	"testing"
	"time"

	"github.com/gotid/god/api/router"
	"github.com/gotid/god/internal/zsim"
	"github.com/gotid/god/lib/logx"
	"github.com/gotid/god/lib/timex"
)

// C02 (REST half) - server guards: one complete response, bounded time and
// concurrency, no crash. Real: engine.bindRoutes with the default chain
// (tracing, log, prometheus, MaxConns, breaker, shedding(off), timeout,
// recover, metric, MaxBytes, gunzip), the router. Stub: httptest recorder as
// the connection, client tasks, handler scripts.

func init() { logx.Disable() }

func TestZsimC02(t *testing.T) {
	zsim.Main(t, zsim.Harness{
		Property: "C02", Name: "rest-chain",
		Run:      c02Run,
		Horizon:  time.Hour,
		MaxSteps: 200000,
		Rule:     "route timeout in {50ms,1s,3s}, MaxConns in {1,2,5}, MaxBytes in {16,1024}; 1-6 client tasks start requests at drawn virtual instants; each request carries a handler script (sleep, Header().Set, WriteHeader, Write(marker), panic, in any order before and after the deadline), optionally a client cancellation instant or an oversized Content-Length; the scheduler interleaves the handler goroutine with the timeout select; the route breaker's random source never rejects; non-trivial = a deadline, cancellation, panic, full latch or oversized body occurred; distinct = distinct event-log fingerprint",
		Real:     []string{"api engine.bindRoutes + default middleware chain", "api/handler timeoutHandler/timeoutWriter, RecoverHandler, MaxConns, MaxBytesHandler, BreakerHandler, Log/Tracing/Prometheus/Metric/Gunzip handlers", "api/router", "lib/syncx.Limit"},
		Stub:     []string{"httptest.ResponseRecorder as the connection", "client tasks", "handler scripts"},
	})
}

type c02Step struct {
	kind int // 0 sleep 1 header 2 writeheader 3 write 4 panic
	d    time.Duration
	code int
	data string
}

type c02Req struct {
	outerMw  bool // an outer middleware set X-Mw before the route's chain ran
	id       int
	steps    []c02Step
	cancelAt time.Duration // 0: no client cancellation
	oversize bool
	// observed
	started   bool
	startAt   time.Duration
	finishAt  time.Duration // handler returned (or panicked)
	finished  bool
	panicked  bool
	reuseBuf  bool // the handler writes every chunk from one scratch buffer
	scratch   []byte
	committed bool // handler called WriteHeader/Write before panicking
}

func c02Run(r *zsim.Run) {
	timex.ZsimReset()
	r.RandMode = 2 // the per-route breaker never rejects: a 503 can only come from the guards under test
	o, f := r.Ops, r.Fault
	timeout := zsim.Pick(o, time.Second, 50*time.Millisecond, 3*time.Second)
	maxConns := zsim.Pick(o, 2, 1, 5)
	maxBytes := int64(zsim.Pick(o, 1024, 16))
	ng := newEngine(Config{Host: "sim", Port: 1, MaxConns: maxConns, MaxBytes: maxBytes, Timeout: int64(timeout / time.Millisecond)})
	var reqs []*c02Req
	byID := map[string]*c02Req{}
	ng.addRoutes(featuredRoutes{routes: []Route{{Method: http.MethodPost, Path: "/work", Handler: func(w http.ResponseWriter, req *http.Request) {
		rq := byID[req.Header.Get("X-Req")]
		rq.started = true
		rq.startAt = r.Now()
		// requests that certainly still hold a MaxConns slot: their handler is running, their deadline is
		// still ahead and their client has not gone away (at the deadline instant itself the slot may
		// already have been handed on, so those are not counted)
		inside := 1
		for _, other := range reqs {
			if other != rq && other.started && !other.finished && r.Now() < other.startAt+timeout && (other.cancelAt == 0 || r.Now() < other.startAt+other.cancelAt-time.Millisecond) {
				inside++
			}
		}
		if inside > maxConns {
			r.Failf("maxconns-exceeded", "%d requests are inside the handler with MaxConns=%d", inside, maxConns)
		}
		defer func() {
			rq.finishAt = r.Now()
			rq.finished = true
		}()
		for _, st := range rq.steps {
			switch st.kind {
			case 0:
				zsim.Sleep(st.d)
			case 1:
				w.Header().Set("X-Out", st.data)
			case 5:
				w.Header().Set("X-Mw", st.data) // a header an outer middleware has set already
			case 6:
				// a status code net/http refuses: WriteHeader panics (like any other panic of the handler)
				rq.panicked = true
				w.WriteHeader(st.code)
			case 2:
				rq.committed = true
				w.WriteHeader(st.code)
			case 3:
				rq.committed = true
				if rq.reuseBuf {
					// a handler that streams through one buffer (io.Copy, bufio, a pooled buffer): the bytes belong
					// to the writer only until Write returns
					rq.scratch = append(rq.scratch[:0], st.data...)
					w.Write(rq.scratch)
					for i := range rq.scratch {
						rq.scratch[i] = '#'
					}
				} else {
					w.Write([]byte(st.data))
				}
			case 4:
				rq.panicked = true
				switch st.code {
				case 1:
					panic(http.ErrAbortHandler)
				case 2:
					panic(fmt.Errorf("handler error %d", rq.id))
				case 3:
					var m map[string]int
					m["nil-map"] = 1 // runtime error
				case 4:
					// a panic is a panic whatever its value: recover() hands back nil for this one under the
					// module's language version (go 1.19)
					var none any
					panic(none)
				}
				panic("handler-panic")
			}
		}
	}}}})
	rt := router.NewRouter()
	if err := ng.bindRoutes(rt); err != nil {
		r.Failf("bind", "%v", err)
		return
	}
	r.Logf("timeout=%v maxConns=%d maxBytes=%d", timeout, maxConns, maxBytes)
	clients := 1 + o.Intn(6)
	if r.Tier == "thorough" && o.Intn(4) == 0 {
		clients = 7 + o.Intn(6) // the thorough tier also draws larger runs
	}
	done := 0
	nextID := 0
	for c := 0; c < clients; c++ {
		c := c
		n := 1 + o.Intn(3)
		r.Go(fmt.Sprintf("client%d", c), func() {
			defer func() { done++ }()
			for i := 0; i < n && !r.Failed(); i++ {
				zsim.Sleep(time.Duration(o.Intn(40)) * time.Millisecond)
				nextID++
				rq := &c02Req{id: nextID, reuseBuf: o.Intn(2) == 0}
				// handler script; sleeps are chosen so that the handler never finishes exactly at the deadline
				ns := 1 + o.Intn(5)
				var total time.Duration
				for s := 0; s < ns; s++ {
					switch k := o.Intn(6); k {
					case 0, 1:
						d := zsim.Pick(o, time.Millisecond, timeout/3, timeout-7*time.Millisecond, timeout+9*time.Millisecond, 2*timeout+time.Millisecond)
						total += d
						rq.steps = append(rq.steps, c02Step{kind: 0, d: d})
					case 2:
						rq.steps = append(rq.steps, c02Step{kind: 1, data: fmt.Sprintf("h%d-%d", rq.id, s)})
						if o.Intn(3) == 0 {
							rq.steps = append(rq.steps, c02Step{kind: 5, data: fmt.Sprintf("mw%d-%d", rq.id, s)})
						}
					case 3:
						rq.steps = append(rq.steps, c02Step{kind: 2, code: zsim.Pick(o, 201, 200, 404, 418, 500)})
					case 4:
						rq.steps = append(rq.steps, c02Step{kind: 3, data: fmt.Sprintf("<m%d-%d>", rq.id, s)})
					case 5:
						if f.Intn(3) == 2 {
							if f.Intn(4) == 3 {
								rq.steps = append(rq.steps, c02Step{kind: 6, code: zsim.Pick(f, 0, 1000, 99)})
							} else {
								rq.steps = append(rq.steps, c02Step{kind: 4, code: f.Intn(5)})
							}
						}
					}
				}
				if total == timeout {
					rq.steps = append(rq.steps, c02Step{kind: 0, d: 3 * time.Millisecond})
				}
				rq.oversize = f.Intn(8) == 7
				if f.Intn(6) == 5 {
					rq.cancelAt = zsim.Pick(f, timeout/2+time.Millisecond, 5*time.Millisecond, timeout+50*time.Millisecond)
				}
				reqs = append(reqs, rq)
				byID[fmt.Sprint(rq.id)] = rq
				body := bytes.Repeat([]byte("b"), 8)
				if rq.oversize {
					body = bytes.Repeat([]byte("b"), int(maxBytes)+1)
				}
				req := httptest.NewRequest(http.MethodPost, "http://sim/work", bytes.NewReader(body))
				req.Header.Set("X-Req", fmt.Sprint(rq.id))
				if up := zsim.Pick(o, "", "", "", "h2c", "TLS/1.0"); up != "" {
					// an upgrade offer other than websocket: the request is served as an ordinary one
					req.Header.Set("Upgrade", up)
					req.Header.Set("Connection", "Upgrade")
				}
				rq.outerMw = o.Intn(2) == 0
				var cancelled time.Duration = -1
				if rq.cancelAt > 0 {
					ctx, cancel := context.WithCancel(req.Context())
					req = req.WithContext(ctx)
					at := rq.cancelAt
					r.Go("cancel", func() { zsim.Sleep(at); cancelled = r.Now(); cancel() })
				}
				rec := httptest.NewRecorder()
				if rq.outerMw {
					// what a middleware outside the route's chain (CORS, tracing) does before it calls the router
					rec.Header().Set("X-Mw", "outer")
				}
				t0 := r.Now()
				var panicked any
				func() {
					defer func() { panicked = recover() }()
					rt.ServeHTTP(rec, req)
				}()
				t1 := r.Now()
				r.Logf("c%d req %d steps=%v oversize=%v cancelAt=%v -> %d %q hdr=%q in %v (handler started=%v finished=%v)", c, rq.id, rq.steps, rq.oversize, rq.cancelAt, rec.Code, rec.Body.String(), rec.Header().Get("X-Out"), t1-t0, rq.started, rq.finished)
				if !c02Judge(r, rq, rec, panicked, t0, t1, timeout, maxConns, cancelled) {
					return
				}
			}
		})
	}
	if !r.WaitFor(10*time.Minute, 100*time.Millisecond, func() bool { return done == clients }) {
		r.Failf("client-hangs", "clients are still waiting for their responses: %v", r.Alive(false))
	}
}

func c02Judge(r *zsim.Run, rq *c02Req, rec *httptest.ResponseRecorder, panicked any, t0, t1, timeout time.Duration, maxConns int, cancelled time.Duration) bool {
	body := rec.Body.String()
	if panicked != nil {
		r.Failf("panic-escapes-chain", "request %d: a panic escaped the middleware chain: %v", rq.id, panicked)
		return false
	}
	if t1-t0 > timeout+time.Millisecond {
		r.Failf("response-late", "request %d took %v with a route timeout of %v", rq.id, t1-t0, timeout)
		return false
	}
	if rq.oversize {
		r.NonTrivial()
		if rec.Code == http.StatusServiceUnavailable && !rq.started {
			return true // the MaxConns latch (outer guard) was full
		}
		if rec.Code != http.StatusRequestEntityTooLarge || rq.started {
			r.Failf("oversized-body-admitted", "request %d declared a body larger than MaxBytes: status %d, handler started=%v (want 413 without reaching the handler)", rq.id, rec.Code, rq.started)
			return false
		}
		return true
	}
	if !rq.started {
		r.NonTrivial()
		r.Probe("latch_full")
		if rec.Code != http.StatusServiceUnavailable {
			r.Failf("dropped-request-wrong-status", "request %d never reached the handler but was answered %d (want 503)", rq.id, rec.Code)
			return false
		}
		return true
	}
	deadline := rq.startAt + timeout // the timeout handler starts its clock right before the handler
	clientGone := cancelled >= 0 && cancelled <= t1
	handlerDone := rq.finished && rq.finishAt <= t1
	if rq.finished && rq.finishAt < deadline && !(cancelled >= 0 && cancelled <= rq.finishAt) && t1 > rq.finishAt+time.Millisecond {
		// nothing in these runs takes time except the handler's own sleeps: a handler that is done before the
		// deadline has its response (or the 500 for its panic) delivered then, not at the deadline
		r.Failf("response-withheld", "request %d: the handler was done (panicked=%v) at %v, before the deadline %v, but the client was answered only at %v (%d)", rq.id, rq.panicked, rq.finishAt, deadline, t1, rec.Code)
		return false
	}
	// expected content if the handler's output is delivered
	status, hdr, out := http.StatusOK, "", ""
	var mw []string
	if rq.outerMw {
		mw = []string{"outer"}
	}
	outerOnly := strings.Join(mw, ",")
	wrote := false
	for _, st := range rq.steps {
		if st.kind == 4 || st.kind == 6 {
			break
		}
		switch st.kind {
		case 5:
			mw = []string{st.data}
		case 1:
			hdr = st.data
		case 2:
			if !wrote {
				status, wrote = st.code, true
			}
		case 3:
			wrote = true
			out += st.data
		}
	}
	switch {
	case handlerDone && !rq.panicked && (t1-t0 < timeout) && !clientGone:
		if rec.Code != status || body != out || rec.Header().Get("X-Out") != hdr {
			r.Failf("response-differs-from-handler", "request %d: the handler finished in time with status %d header %q body %q but the client received %d %q %q", rq.id, status, hdr, out, rec.Code, rec.Header().Get("X-Out"), body)
			return false
		}
		if got := strings.Join(rec.Header()["X-Mw"], ","); got != strings.Join(mw, ",") {
			r.Failf("response-differs-from-handler", "request %d: header X-Mw (set by an outer middleware: %v, then by the handler) should reach the client as %v, it received %v", rq.id, rq.outerMw, mw, rec.Header()["X-Mw"])
			return false
		}
	case handlerDone && rq.panicked && (t1-t0 < timeout) && !clientGone:
		r.NonTrivial()
		r.Probe("handler_panicked")
		if !rq.committed && rec.Code != http.StatusInternalServerError {
			r.Failf("panic-not-500", "request %d: the handler panicked before committing anything but the client received %d %q", rq.id, rec.Code, body)
			return false
		}
	default:
		// the deadline (or the client's cancellation) came first: timeout response, none of the handler's bytes
		r.NonTrivial()
		r.Probe("deadline_first")
		if strings.Contains(body, "<m") || rec.Header().Get("X-Out") != "" || strings.Join(rec.Header()["X-Mw"], ",") != outerOnly {
			if handlerDone && t1-t0 >= timeout {
				// finished at the very instant of the deadline: either response is acceptable
				return true
			}
			r.Failf("handler-output-after-deadline", "request %d: the deadline passed (handler done=%v) but the client received handler output: %d %q hdr=%q", rq.id, handlerDone, rec.Code, body, rec.Header().Get("X-Out"))
			return false
		}
		want := http.StatusServiceUnavailable
		if clientGone && cancelled < rq.startAt+timeout {
			want = 499
		}
		if rec.Code != want && !(handlerDone && (rec.Code == status || rec.Code == 500)) {
			r.Failf("wrong-timeout-status", "request %d: deadline/cancellation first (client cancelled=%v) but the status is %d, want %d", rq.id, clientGone, rec.Code, want)
			return false
		}
	}
	return true
}
