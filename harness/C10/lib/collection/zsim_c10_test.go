//go:build verif

package collection

import (
	"fmt"
	"sort"
	"testing"
	"time"

	"github.com/gotid/god/internal/zsim"
)

// C10 - timing wheel fires every task exactly once at the requested tick.
// Real: TimingWheel through its public constructor (ticker = time.NewTicker
// on the simulated clock), SafeMap, lib/threading. Stub: execute/drain
// callbacks.

type c10Fire struct {
	key   string
	val   int
	tick  int
	drain bool
}

type c10Pending struct {
	val int
	due int
}

func TestZsimC10(t *testing.T) {
	zsim.Main(t, zsim.Harness{
		Property: "C10", Name: "wheel",
		Run:      c10Run,
		Horizon:  2 * time.Hour,
		MaxSteps: 400000,
		Rule:     "history of SetTimer/MoveTimer/RemoveTimer/invalid calls at mid-tick instants separated by 0..k ticks over <=4 keys, ending in Drain, Stop or plain ticks, drawn from the ops tape; non-trivial = at least one timer was re-set or moved while pending, or lived for more than one revolution, or a Drain handed over a pending task; distinct = distinct event-log fingerprint",
		Real:     []string{"lib/collection.TimingWheel (public constructor, real ticker on the simulated clock)", "lib/collection.SafeMap", "lib/threading", "lib/timex.NewTicker"},
		Stub:     []string{"execute and drain callbacks (record key, value, virtual time)"},
	})
}

func c10Run(r *zsim.Run) {
	o := r.Ops
	slots := zsim.Pick(o, 10, 1, 2, 3, 5, 8)
	interval := zsim.Pick(o, time.Second, 10*time.Millisecond)
	long := r.Tier == "thorough" && o.Intn(40) == 39
	nops := 2 + o.Intn(14)
	if long {
		nops = 11000 + o.Intn(2000)
	}
	keys := []string{"a", "b", "c", "d"}
	if !long && o.Intn(5) == 0 {
		// many keys: more pending tasks than the drain function has workers
		keys = []string{"a", "b", "c", "d", "e", "f", "g", "h", "i", "j", "k", "l", "m", "n"}
		if nops < 20 {
			nops += 14
		}
	}
	var fired []c10Fire
	tickOf := func() int { return int(r.Now() / interval) }
	// some runs have slow callbacks: the tasks of one tick run one after the other in their own goroutine, so a slow
	// one delays the rest of its batch (they then fire late, which is accepted in these runs) while the wheel ticks on
	slowCb := !long && o.Intn(4) == 0
	// some runs do not wait for the wheel to digest an operation before issuing the next one
	eager := !long && o.Intn(3) == 0
	panicCb := o.Intn(5) == 0
	tw, err := NewTimingWheel(interval, slots, func(k, v any) {
		fired = append(fired, c10Fire{k.(string), v.(int), tickOf(), false})
		r.Logf("fire %v=%v tick %d", k, v, tickOf())
		if slowCb && o.Intn(2) == 0 {
			zsim.Sleep(zsim.Pick(o, interval/2, interval, 3*interval))
		}
		if panicCb && o.Intn(3) == 0 {
			// fault: the callback panics after its work; the other tasks of the tick must still fire
			r.FaultFired("callback-panicked")
			panic("callback failed")
		}
	})
	if err != nil {
		r.Failf("constructor", "NewTimingWheel(%v,%d): %v", interval, slots, err)
		return
	}
	r.Logf("wheel slots=%d interval=%v ops=%d long=%v slow-callbacks=%v eager=%v", slots, interval, nops, long, slowCb, eager)
	c10Slow = slowCb
	model := map[string]*c10Pending{}
	var expect []c10Fire // what must fire, in the model
	removedEver := map[string][]c10Removed{}
	maxDue := 0
	// mid-tick
	zsim.Sleep(interval / 2)
	nextVal := 0
	advance := func(n int) {
		for i := 0; i < n; i++ {
			zsim.Sleep(interval)
			r.Quiesce()
			t := tickOf()
			for k, p := range model {
				if p.due == t {
					expect = append(expect, c10Fire{k, p.val, t, false})
					delete(model, k)
				}
			}
		}
	}
	delayOf := func() (time.Duration, int) {
		maxSteps := slots*7/2 + 1
		steps := 1 + o.Intn(maxSteps)
		d := time.Duration(steps) * interval
		if o.Intn(3) == 1 {
			d += interval / 3
		}
		return d, steps
	}
	stopped := false
	drained := false
	stoppedAfterDrain := false
	for i := 0; i < nops && !r.Failed(); i++ {
		k := keys[o.Intn(len(keys))]
		if long {
			k = fmt.Sprintf("k%d", i%1500)
		}
		T := tickOf()
		op := o.Intn(10)
		if long {
			op = []int{0, 0, 0, 4, 6, 7}[o.Intn(6)]
		}
		switch op {
		case 0, 1, 2, 3: // SetTimer
			d, steps := delayOf()
			nextVal++
			if _, pending := model[k]; pending {
				r.NonTrivial()
				r.Probe("reset_pending")
			}
			if steps > slots {
				r.NonTrivial()
				r.Probe("multi_revolution")
			}
			err := tw.SetTimer(k, nextVal, d)
			r.Logf("set %s=%d delay %v at tick %d -> %v", k, nextVal, d, T, err)
			if err != nil {
				r.Failf("set-error", "SetTimer(%s,%v) on a running wheel returned %v", k, d, err)
				return
			}
			model[k] = &c10Pending{nextVal, T + steps}
			if T+steps > maxDue {
				maxDue = T + steps
			}
		case 4, 5: // MoveTimer
			d, steps := delayOf()
			err := tw.MoveTimer(k, d)
			r.Logf("move %s delay %v at tick %d -> %v", k, d, T, err)
			if err != nil {
				r.Failf("move-error", "MoveTimer(%s,%v) on a running wheel returned %v", k, d, err)
				return
			}
			if p, ok := model[k]; ok {
				r.NonTrivial()
				r.Probe("move_pending")
				if steps > slots {
					r.Probe("multi_revolution")
				}
				p.due = T + steps
				if p.due > maxDue {
					maxDue = p.due
				}
			}
		case 6: // RemoveTimer
			err := tw.RemoveTimer(k)
			r.Logf("remove %s at tick %d -> %v", k, T, err)
			if err != nil {
				r.Failf("remove-error", "RemoveTimer(%s) on a running wheel returned %v", k, err)
				return
			}
			if p, ok := model[k]; ok {
				removedEver[k] = append(removedEver[k], c10Removed{p.val, T, p.due})
				delete(model, k)
				r.Probe("remove_pending")
			}
		case 7: // ticks
			n := 1 + o.Intn(slots+2)
			advance(n)
		case 8: // several ticks
			advance(1)
		case 9: // invalid arguments: no side effect
			var err error
			switch o.Intn(4) {
			case 0:
				err = tw.SetTimer(nil, 1, interval)
			case 1:
				err = tw.SetTimer(k, 1, -interval*time.Duration(o.Intn(2)))
			case 2:
				err = tw.MoveTimer(k, 0)
			case 3:
				err = tw.RemoveTimer(nil)
			}
			r.Logf("invalid call -> %v", err)
			if err != ErrArgument {
				r.Failf("invalid-argument-accepted", "a call with a nil key or non-positive delay returned %v, want ErrArgument", err)
				return
			}
		}
		if !eager || o.Intn(2) == 0 {
			r.Quiesce()
		}
	}
	r.Quiesce()
	// ending
	ending := o.Intn(4)
	if long {
		ending = 0
	}
	switch ending {
	case 1: // Drain: every pending task is handed over exactly once, none fires afterwards
		T := tickOf()
		slowDrain := o.Intn(3) == 0
		err := tw.Drain(func(k, v any) {
			fired = append(fired, c10Fire{k.(string), v.(int), tickOf(), true})
			r.Logf("drained %v=%v", k, v)
			if slowDrain {
				zsim.Sleep(interval / 4)
			}
		})
		r.Logf("drain at tick %d -> %v", T, err)
		if err != nil {
			r.Failf("drain-error", "Drain on a running wheel returned %v", err)
			return
		}
		if slowDrain && o.Intn(2) == 0 {
			// the usual shutdown sequence: Drain, then Stop at once - the accepted Drain still hands over everything
			tw.Stop()
			stoppedAfterDrain = true
			r.Probe("stop_right_after_drain")
		}
		if slowDrain {
			zsim.Sleep(20 * interval)
		}
		r.Quiesce()
		for k, p := range model {
			expect = append(expect, c10Fire{k, p.val, T, true})
			r.NonTrivial()
			r.Probe("drain_pending")
			delete(model, k)
		}
	case 2: // Stop: everything afterwards reports ErrClosed
		tw.Stop()
		r.Quiesce()
		stopped = true
		for k := range model {
			delete(model, k)
		}
		errs := []error{tw.SetTimer("a", 1, interval), tw.MoveTimer("a", interval), tw.RemoveTimer("a"), tw.Drain(func(k, v any) {})}
		r.Logf("after stop: %v", errs)
		for _, e := range errs {
			if e != ErrClosed {
				r.Failf("not-closed-after-stop", "an operation after Stop returned %v, want ErrClosed (all: %v)", e, errs)
				return
			}
		}
	}
	_ = drained
	// run the clock past every due tick (plus two revolutions of slack so
	// that a late firing is seen, not missed)
	if !stopped {
		advance(maxDue - tickOf() + 2*slots + 3)
		if slowCb {
			zsim.Sleep(40 * interval) // delayed batches finish
			r.Quiesce()
		}
	} else {
		zsim.Sleep(time.Duration(2*slots+3) * interval)
		if slowCb {
			zsim.Sleep(40 * interval) // delayed batches finish
		}
		r.Quiesce()
	}
	if ending != 2 && !stoppedAfterDrain {
		tw.Stop()
	}
	c10Compare(r, expect, fired, removedEver, stopped)
}

type c10Removed struct{ val, at, due int }

var c10Slow bool // this run has slow callbacks (late firing of the rest of a batch is accepted)

func c10Compare(r *zsim.Run, expect, fired []c10Fire, removedEver map[string][]c10Removed, stopped bool) {
	type kv struct {
		key string
		val int
	}
	exp := map[kv]c10Fire{}
	for _, e := range expect {
		exp[kv{e.key, e.val}] = e
	}
	seen := map[kv]int{}
	// deterministic order for reporting
	sort.SliceStable(fired, func(i, j int) bool { return fired[i].tick < fired[j].tick })
	for _, f := range fired {
		id := kv{f.key, f.val}
		seen[id]++
		e, ok := exp[id]
		if !ok {
			for _, rm := range removedEver[f.key] {
				if rm.val == f.val && f.tick <= rm.at && !f.drain {
					r.Failf("fired-early", "task %s=%d fired during tick %d, want tick %d (it was removed later, at tick %d)", f.key, f.val, f.tick, rm.due, rm.at)
					return
				}
				if rm.val == f.val {
					r.Failf("removed-task-fired", "task %s=%d was removed at tick %d but fired at tick %d (drain=%v)", f.key, f.val, rm.at, f.tick, f.drain)
					return
				}
			}
			if stopped {
				continue // the statement does not say what pending tasks do after Stop
			}
			r.Failf("stale-task-fired", "task %s=%d fired at tick %d (drain=%v) although it had been superseded or was never pending", f.key, f.val, f.tick, f.drain)
			return
		}
		if seen[id] > 1 {
			r.Failf("fired-twice", "task %s=%d fired %d times", f.key, f.val, seen[id])
			return
		}
		if e.drain != f.drain {
			if f.drain {
				r.Failf("drained-instead-of-fired", "task %s=%d due at tick %d was handed to the drain function at tick %d", f.key, f.val, e.tick, f.tick)
			} else {
				r.Failf("fired-after-drain", "task %s=%d was pending at Drain (tick %d) but fired at tick %d", f.key, f.val, e.tick, f.tick)
			}
			return
		}
		if !f.drain && f.tick != e.tick && !(c10Slow && f.tick > e.tick) {
			cls := "fired-late"
			if f.tick < e.tick {
				cls = "fired-early"
			}
			r.Failf(cls, "task %s=%d fired during tick %d, want tick %d", f.key, f.val, f.tick, e.tick)
			return
		}
	}
	var missing []string
	for id, e := range exp {
		if seen[id] == 0 {
			missing = append(missing, fmt.Sprintf("%s=%d(due tick %d drain=%v)", id.key, id.val, e.tick, e.drain))
		}
	}
	if len(missing) > 0 {
		sort.Strings(missing)
		r.Failf("never-fired", "tasks never fired / never drained within two revolutions after their due tick: %v", missing)
	}
}
