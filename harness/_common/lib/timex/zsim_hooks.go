//go:build verif

package timex

import "time"

// ZsimReset re-bases the relative clock on the simulated clock of the
// current run (initTime is otherwise taken from the real clock at package
// initialisation, which makes Now() negative inside a bubble).
func ZsimReset() { initTime = time.Now().AddDate(-1, -1, -1) }
