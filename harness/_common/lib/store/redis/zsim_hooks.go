//go:build verif

package redis

import (
	red "github.com/go-redis/redis/v8"
	"github.com/gotid/god/lib/syncx"
)

// ZsimRegister makes the wrapper use this go-redis client for addr (the
// client dials through the simulator's transport).
func ZsimRegister(addr string, c *red.Client) {
	c.AddHook(durationHook)
	clientManager.Set(addr, c)
}

// ZsimResetClients forgets the clients of earlier runs.
func ZsimResetClients() { clientManager = syncx.NewResourceManager() }
