//go:build verif

package stat

// The alert reporter rate-limits itself with a package-level executor that remembers, for the life of the
// process, when it last reported; a run would then depend on the runs before it. Simulated runs have no reporter.
func init() { SetReporter(nil) }
