//go:build verif

package breaker

// ZsimReset forgets the named breakers of earlier simulated runs (the
// registry is a package-level map).
func ZsimReset() {
	lock.Lock()
	breakers = make(map[string]Breaker)
	lock.Unlock()
}
