//go:build verif

package cache

import (
	"time"

	"github.com/gotid/god/lib/collection"
	"github.com/gotid/god/lib/threading"
)

// ZsimReset re-creates the package-level retry wheel and task runner inside
// the current simulated run (the ones made at package initialisation live
// outside the bubble, on the real clock).
func ZsimReset() {
	timingWheel, _ = collection.NewTimingWheel(time.Second, timingWheelSlots, clean)
	taskRunner = threading.NewTaskRunner(cleanWorkers)
}
