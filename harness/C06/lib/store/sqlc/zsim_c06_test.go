//go:build verif

package sqlc

import (
	"context"
	"database/sql"
	"fmt"
	"math"
	"strings"
	"testing"
	"time"

	"github.com/gotid/god/internal/zsim"
	"github.com/gotid/god/internal/zsim/zredis"
	"github.com/gotid/god/lib/logx"
	"github.com/gotid/god/lib/store/cache"
	"github.com/gotid/god/lib/store/redis"
	"github.com/gotid/god/lib/store/sqlx"
	"github.com/gotid/god/lib/syncx"
	"github.com/gotid/god/lib/timex"
)

// C06 - cache-aside: no stale reads after writes, DB shielded, failed
// deletes retried. Real: sqlc.CachedConn, cache.node / cluster / cleaner,
// syncx.SingleFlight, collection.TimingWheel, lib/store/redis + breaker,
// go-redis, 1-3 miniredis servers behind the simulated transport. Stub: the
// database (a model map read by the query callbacks).

func init() { logx.Disable() }

func TestZsimC06(t *testing.T) {
	zsim.Main(t, zsim.Harness{
		Property: "C06", Name: "cachedsql",
		Run:      c06Run,
		Horizon:  48 * time.Hour,
		MaxSteps: 400000,
		Rule:     "class a: fault-free sequential histories of QueryRow / QueryRowIndex / Exec(keys) / DelCache / SetCache over <=4 primary and <=2 index keys on 1-3 cache nodes with clock advances (server time in lock-step), expiry jitter steered min/max/seeded; class b: 2-6 concurrent readers of one uncached key with a sleeping query; class c: a Redis fault (error reply, refused dials, reset before delivery, lost reply) switched on inside a read or a write's cache delete and off again after a drawn delay, then the retry schedule is observed for more than an hour; non-trivial = a write invalidated a cached key, a placeholder was stored, readers overlapped, or a fault fired; distinct = distinct event-log fingerprint",
		Real:     []string{"lib/store/sqlc CachedConn", "lib/store/cache node, cluster, cleaner (retry wheel re-created per run)", "lib/syncx.SingleFlight", "lib/collection.TimingWheel", "lib/store/redis wrapper + breaker", "go-redis", "miniredis (1-3 nodes)", "lib/hash.ConsistentHash (placement)"},
		Stub:     []string{"the SQL database (model map + query counters)", "network to Redis (simulated transport)", "server clock (lock-step)"},
	})
}

type c06Row struct {
	ID  int
	Ver int
}

type c06Env struct {
	idBase   int             // added to the row ids reached through the index (large ids do not survive a float64)
	idxSleep time.Duration   // the index query takes this long
	ctx      context.Context // for the next reads, if set
	r        *zsim.Run
	srvs     []*zredis.Server
	cc       CachedConn
	db       map[int]int // id -> version (0: no row)
	queries  map[string]int
	inQuery  map[string]int
	expire   time.Duration
	nfExp    time.Duration
}

func c06Setup(r *zsim.Run, nodes int, expire, nf time.Duration) *c06Env {
	timex.ZsimReset()
	redis.ZsimResetClients()
	cache.ZsimReset()
	singleFlights = syncx.NewSingleFlight()
	stats = cache.NewStat("sqlc")
	e := &c06Env{r: r, db: map[int]int{}, queries: map[string]int{}, inQuery: map[string]int{}, expire: expire, nfExp: nf}
	var conf cache.Config
	for i := 0; i < nodes; i++ {
		addr := fmt.Sprintf("sim-cache-%d:6379", i)
		srv := zredis.Start(r, addr)
		redis.ZsimRegister(addr, srv.Client)
		e.srvs = append(e.srvs, srv)
		conf = append(conf, cache.NodeConfig{Config: redis.Config{Host: addr, Type: redis.NodeType}, Weight: 50 + 50*i})
	}
	e.cc = NewConn(nil, conf, cache.WithExpire(expire), cache.WithNotFoundExpire(nf))
	return e
}

func (e *c06Env) close() {
	for _, s := range e.srvs {
		s.Close()
	}
}

func (e *c06Env) advance(d time.Duration) {
	zsim.Sleep(d)
	for _, s := range e.srvs {
		s.M.FastForward(d)
		s.M.SetTime(time.Now())
	}
}

// which server holds key (by looking)
func (e *c06Env) holder(key string) *zredis.Server {
	for _, s := range e.srvs {
		if s.M.Exists(key) {
			return s
		}
	}
	return nil
}

func pkKey(id int) string { return fmt.Sprintf("cache:row:id:%d", id) }

func (e *c06Env) queryPK(id int, sleep time.Duration) (c06Row, error) {
	var row c06Row
	key := pkKey(id)
	ctx := e.ctx
	if ctx == nil {
		ctx = context.Background()
	}
	err := e.cc.QueryRowCtx(ctx, &row, key, func(_ context.Context, _ sqlx.Conn, v any) error {
		e.queries[key]++
		e.inQuery[key]++
		if e.inQuery[key] > 1 {
			e.r.Failf("concurrent-db-queries", "%d database queries for key %s are in flight at the same time", e.inQuery[key], key)
		}
		defer func() { e.inQuery[key]-- }()
		if sleep > 0 {
			zsim.Sleep(sleep)
		}
		ver := e.db[id]
		if ver == 0 {
			return sql.ErrNoRows
		}
		*v.(*c06Row) = c06Row{id, ver}
		return nil
	})
	return row, err
}

func idxKey(name int) string { return fmt.Sprintf("cache:row:name:%d", name) }

// index: name n belongs to row id n+100 (if that row exists)
func (e *c06Env) queryIdx(name int) (c06Row, error) {
	var row c06Row
	key := idxKey(name)
	id := name + 100 + e.idBase
	err := e.cc.QueryRowIndex(&row, key, func(primary any) string {
		return pkKey(int(toInt(primary)))
	}, func(_ sqlx.Conn, v any) (any, error) {
		e.queries[key]++
		if e.idxSleep > 0 {
			zsim.Sleep(e.idxSleep)
		}
		ver := e.db[id]
		if ver == 0 {
			return nil, sql.ErrNoRows
		}
		*v.(*c06Row) = c06Row{id, ver}
		return id, nil
	}, func(_ sqlx.Conn, v, primary any) error {
		pid := int(toInt(primary))
		e.queries[pkKey(pid)]++
		ver := e.db[pid]
		if ver == 0 {
			return sql.ErrNoRows
		}
		*v.(*c06Row) = c06Row{pid, ver}
		return nil
	})
	return row, err
}

func toInt(v any) int64 {
	switch x := v.(type) {
	case int:
		return int64(x)
	case int64:
		return x
	case float64:
		return int64(x)
	case *any:
		return toInt(*x)
	}
	// the cached primary key comes back as a json.Number
	var n int64 = -1
	fmt.Sscan(fmt.Sprint(v), &n)
	return n
}

func c06Run(r *zsim.Run) {
	r.RandMode = r.Ops.Intn(3)
	switch r.Ops.Intn(6) {
	case 0, 1, 2:
		c06Sequential(r)
	case 3:
		c06Readers(r)
	default:
		c06Faults(r)
	}
}

func (e *c06Env) checkRead(what string, row c06Row, err error, id int) bool {
	ver := e.db[id]
	switch {
	case ver == 0:
		if err != sql.ErrNoRows {
			e.r.Failf("wrong-read", "%s: the database has no row %d but the read returned (%+v, %v), want ErrNotFound", what, id, row, err)
			return false
		}
	case err != nil:
		e.r.Failf("wrong-read", "%s: the database holds row %d version %d but the read failed: %v", what, id, ver, err)
		return false
	case row.ID != id || row.Ver != ver:
		e.r.Failf("stale-read", "%s: the database holds row %d version %d but the read returned %+v", what, id, ver, row)
		return false
	}
	return true
}

func (e *c06Env) checkTTL(key string, base time.Duration, extra time.Duration) bool {
	s := e.holder(key)
	if s == nil {
		return true
	}
	ttl := s.M.TTL(key)
	lo := time.Duration(math.Ceil((base.Seconds()*0.95)-1e-9))*time.Second + extra
	hi := time.Duration(math.Ceil(base.Seconds()*1.05+1e-9))*time.Second + extra
	if ttl < lo || ttl > hi {
		e.r.Failf("ttl-out-of-range", "key %s was stored with a TTL of %v; the configured expiry %v allows %v..%v", key, ttl, base, lo, hi)
		return false
	}
	return true
}

func c06Sequential(r *zsim.Run) {
	o := r.Ops
	nodes := 1 + o.Intn(3)
	expire := zsim.Pick(o, 100*time.Second, 10*time.Second, time.Hour, 7*24*time.Hour)
	nf := zsim.Pick(o, 10*time.Second, 3*time.Second, time.Minute)
	e := c06Setup(r, nodes, expire, nf)
	defer e.close()
	r.Logf("sequential nodes=%d expire=%v notfound=%v randmode=%d", nodes, expire, nf, r.RandMode)
	ids := []int{1, 2, 100, 101} // 100,101 are reachable through index names 0,1
	placeholderUntil := map[string]time.Duration{}
	nextVer := 0
	for i := 0; i < 6+o.Intn(20) && !r.Failed(); i++ {
		id := ids[o.Intn(len(ids))]
		key := pkKey(id)
		switch o.Intn(8) {
		case 0, 1, 2: // read by primary key
			before := e.queries[key]
			cachedBefore := e.holder(key) != nil
			row, err := e.queryPK(id, 0)
			r.Logf("queryrow %d -> %+v %v (db queries %d)", id, row, err, e.queries[key]-before)
			if !e.checkRead("QueryRow", row, err, id) {
				return
			}
			if cachedBefore && e.queries[key] != before {
				r.Failf("db-not-shielded", "key %s was cached (value or placeholder) but the read reached the database", key)
				return
			}
			if !cachedBefore {
				if e.db[id] == 0 {
					r.NonTrivial()
					r.Probe("placeholder_stored")
					placeholderUntil[key] = r.Now()
					if !e.checkTTL(key, nf, 0) {
						return
					}
				} else if !e.checkTTL(key, expire, 0) {
					return
				}
			}
		case 3: // read through the index
			name := id % 2
			idxCached, pkCached := e.holder(idxKey(name)) != nil, e.holder(pkKey(name+100)) != nil
			row, err := e.queryIdx(name)
			r.Logf("queryrowindex name %d -> %+v %v", name, row, err)
			if !e.checkRead("QueryRowIndex", row, err, name+100) {
				return
			}
			if !idxCached && e.db[name+100] != 0 {
				// the index read stored the index key, and the row under its primary key with a 5s safety gap
				r.Probe("index_read_stored_keys")
				if !e.checkTTL(idxKey(name), expire, 0) {
					return
				}
				if !pkCached && !e.checkTTL(pkKey(name+100), expire, 5*time.Second) {
					return
				}
			} else if !idxCached && !e.checkTTL(idxKey(name), nf, 0) {
				return
			}
		case 4, 5: // write: insert / update / delete the row, naming the affected keys
			cached := e.holder(key) != nil
			del := e.db[id] != 0 && o.Intn(4) == 0
			_, err := e.cc.Exec(func(sqlx.Conn) (sql.Result, error) {
				if del {
					e.db[id] = 0
				} else {
					nextVer++
					e.db[id] = nextVer
				}
				return nil, nil
			}, key, idxKey(id-100))
			r.Logf("exec row %d -> version %d (%v)", id, e.db[id], err)
			if err != nil {
				r.Failf("exec-error", "Exec failed without any fault: %v", err)
				return
			}
			if cached {
				r.NonTrivial()
				r.Probe("write_invalidated_cached_key")
			}
			if e.holder(key) != nil {
				r.Failf("write-left-cache", "after Exec naming key %s the key is still cached", key)
				return
			}
		case 6:
			if o.Intn(2) == 0 {
				err := e.cc.DelCache(key)
				r.Logf("delcache %s -> %v", key, err)
			} else if e.db[id] != 0 {
				err := e.cc.SetCache(key, c06Row{id, e.db[id]})
				r.Logf("setcache %s -> %v", key, err)
				if !e.checkTTL(key, expire, 0) {
					return
				}
			}
		case 7:
			d := zsim.Pick(o, time.Second, nf-time.Second, nf+2*time.Second, expire/2, expire+expire/10+2*time.Second)
			if d > 2*time.Hour {
				d = 2 * time.Hour
			}
			if d < time.Second {
				d = time.Second
			}
			e.advance(d.Truncate(time.Second))
			r.Logf("advanced %v", d)
		}
	}
}

func c06Readers(r *zsim.Run) {
	o := r.Ops
	e := c06Setup(r, 1+o.Intn(2), time.Minute, 10*time.Second)
	defer e.close()
	n := 2 + o.Intn(5)
	id := 1
	exists := o.Intn(4) != 0
	if exists {
		e.db[id] = 7
	}
	r.Logf("readers n=%d exists=%v", n, exists)
	r.NonTrivial()
	done := 0
	if o.Intn(3) == 0 {
		// the readers go through a unique index whose row has a 19-digit primary key
		e.idBase = 1234567890123456000
		e.idxSleep = time.Duration(1+o.Intn(10)) * time.Millisecond
		rid := 100 + e.idBase
		if exists {
			e.db[rid] = 9
		}
		for i := 0; i < n; i++ {
			i := i
			r.Go(fmt.Sprintf("ixreader%d", i), func() {
				defer func() { done++ }()
				if o.Intn(3) == 0 {
					zsim.Sleep(time.Duration(o.Intn(8)) * time.Millisecond)
				}
				row, err := e.queryIdx(0)
				r.Logf("ixreader%d -> %+v %v", i, row, err)
				e.checkRead("concurrent QueryRowIndex", row, err, rid)
			})
		}
		if !r.WaitFor(time.Minute, 10*time.Millisecond, func() bool { return done == n }) {
			r.Failf("readers-blocked", "readers blocked: %v", r.Alive(false))
		}
		return
	}
	// in some runs the first cache read of the key is held for 20ms and then answered with an error: the readers
	// that have joined by then share that error; whoever reads afterwards starts afresh - one query at a time still
	firstFails := r.Fault.Intn(3) == 0
	if firstFails {
		gets := 0
		for _, s := range e.srvs {
			s.Stall = func(cmd string, args []string) time.Duration {
				if cmd == "GET" && gets == 0 {
					return 20 * time.Millisecond
				}
				return 0
			}
			s.FailReply = func(cmd string, args []string) string {
				if cmd == "GET" {
					gets++
					if gets == 1 {
						r.FaultFired("redis-error-reply")
						return "ERR injected"
					}
				}
				return ""
			}
		}
	}
	for i := 0; i < n; i++ {
		i := i
		r.Go(fmt.Sprintf("reader%d", i), func() {
			defer func() { done++ }()
			if o.Intn(3) == 0 {
				zsim.Sleep(time.Duration(o.Intn(8)) * time.Millisecond)
			}
			row, err := e.queryPK(id, time.Duration(o.Intn(10))*time.Millisecond)
			r.Logf("reader%d -> %+v %v", i, row, err)
			if firstFails && err != nil && strings.Contains(err.Error(), "ERR injected") {
				r.Probe("reader_got_the_shared_cache_error")
				return
			}
			e.checkRead("concurrent QueryRow", row, err, id)
		})
	}
	if !r.WaitFor(time.Minute, 10*time.Millisecond, func() bool { return done == n }) {
		r.Failf("readers-blocked", "readers blocked: %v", r.Alive(false))
	}
}

// delays of the background retry of a failed cache delete
var c06Delays = []time.Duration{time.Second, 5 * time.Second, time.Minute, 5 * time.Minute, time.Hour}

func c06Faults(r *zsim.Run) {
	o, f := r.Ops, r.Fault
	nodes := 1 + o.Intn(2)
	e := c06Setup(r, nodes, time.Hour*24, 10*time.Second)
	defer e.close()
	id := 1
	key := pkKey(id)
	e.db[id] = 1
	// the key is cached
	if row, err := e.queryPK(id, 0); !e.checkRead("warm-up", row, err, id) {
		return
	}
	srv := e.holder(key)
	if srv == nil {
		r.Failf("harness-placement", "the warmed-up key is on no node")
		return
	}
	// on a cluster: a second key that lives on another node and is named by the same write
	otherID, otherKey := 0, ""
	var otherSrv *zredis.Server
	if nodes > 1 {
		for cand := 2; cand < 40 && otherSrv == nil; cand++ {
			e.db[cand] = 1
			if row, err := e.queryPK(cand, 0); !e.checkRead("warm-up", row, err, cand) {
				return
			}
			if h := e.holder(pkKey(cand)); h != nil && h != srv {
				otherID, otherKey, otherSrv = cand, pkKey(cand), h
			}
		}
	}
	// two further cached keys on the same node as the watched one (an old and a new value of a unique index, say):
	// two writes during the outage name the watched key first and one of them each
	var extra []string
	var extraIDs []int
	if o.Intn(3) == 0 {
		for cand := 60; cand < 120 && len(extra) < 2; cand++ {
			e.db[cand] = 1
			if row, err := e.queryPK(cand, 0); !e.checkRead("warm-up", row, err, cand) {
				return
			}
			if e.holder(pkKey(cand)) == srv {
				extra = append(extra, pkKey(cand))
				extraIDs = append(extraIDs, cand)
			}
		}
		if len(extra) < 2 {
			extra, extraIDs = nil, nil
		}
	}
	kind := f.Intn(4) // 0 error replies, 1 refused dials, 2 reset before delivery (transient), 3 lost reply (transient)
	r.Logf("faults kind=%d", kind)
	if o.Intn(3) == 0 {
		// a read during a fault: an error, never a fall-through to the database
		before := e.queries[key]
		rk := f.Intn(3)
		var cancel context.CancelFunc
		switch {
		case rk > 0:
			// the server accepts the command and does not answer in time: the client's read timeout, or the
			// caller's own deadline, ends the wait
			srv.Stall = func(cmd string, args []string) time.Duration {
				if cmd == "GET" {
					r.FaultFired("redis-stall")
					return time.Minute
				}
				return 0
			}
			if rk == 2 {
				e.ctx, cancel = context.WithTimeout(context.Background(), 150*time.Millisecond)
			}
		case kind == 0:
			srv.FailReply = func(cmd string, args []string) string {
				if cmd == "GET" {
					r.FaultFired("redis-error-reply")
					return "ERR injected"
				}
				return ""
			}
		default:
			srv.Cut()
		}
		row, err := e.queryPK(id, 0)
		r.Logf("read during fault (read fault %d) -> %+v %v", rk, row, err)
		if cancel != nil {
			cancel()
		}
		e.ctx = nil
		srv.FailReply = nil
		srv.Stall = nil
		srv.Heal()
		if err == nil || err == sql.ErrNoRows {
			r.Failf("cache-failure-hidden", "Redis failed during the read but QueryRow returned (%+v, %v) instead of the cache error", row, err)
			return
		}
		if e.queries[key] != before {
			r.Failf("cache-failure-falls-through", "Redis failed during the read and the read went on to query the database")
			return
		}
		e.advance(75 * time.Second) // let stalled commands drain and the wrapper's breaker forget
	}
	if o.Intn(3) == 0 {
		// a read through a unique index whose index key is cached: Redis fails on the second read of the same call,
		// the one for the primary key - an error, never a fall-through to the database
		name := o.Intn(2)
		pid := name + 100 + e.idBase
		e.db[pid] = 1
		if _, err := e.queryIdx(name); err != nil {
			r.Failf("harness-warm-up", "index read without any fault: %v", err)
			return
		}
		pk := pkKey(pid)
		if hs := e.holder(pk); hs != nil {
			before, beforeIdx := e.queries[pk], e.queries[idxKey(name)]
			hs.FailReply = func(cmd string, args []string) string {
				if cmd == "GET" && len(args) > 0 && args[0] == pk {
					r.FaultFired("redis-error-reply")
					return "ERR injected"
				}
				return ""
			}
			row, err := e.queryIdx(name)
			hs.FailReply = nil
			r.Logf("index read with the primary-key read failing -> %+v %v", row, err)
			if err == nil || err == sql.ErrNoRows {
				r.Failf("cache-failure-hidden", "Redis failed on the primary-key read of an index query but QueryRowIndex returned (%+v, %v) instead of the cache error", row, err)
				return
			}
			if e.queries[pk] != before || e.queries[idxKey(name)] != beforeIdx {
				r.Failf("cache-failure-falls-through", "Redis failed on the primary-key read of an index query and the read went on to query the database")
				return
			}
			r.Probe("index_read_primary_fault")
			e.advance(75 * time.Second)
		}
	}
	// a write whose cache delete fails
	faultFor := zsim.Pick(f, 500*time.Millisecond, 3*time.Second, 30*time.Second, 4*time.Minute, 30*time.Minute)
	switch kind {
	case 0:
		srv.FailReply = func(cmd string, args []string) string {
			if cmd == "DEL" {
				r.FaultFired("redis-error-reply")
				return "ERR injected"
			}
			return ""
		}
	case 1:
		srv.Cut()
	case 2:
		srv.DropRequest = 8 // more than the client's retries
	case 3:
		srv.DropReply = 8
	}
	t0 := r.Now()
	keys := []string{key}
	if extra != nil {
		keys = append(keys, extra[0])
	}
	if otherSrv != nil {
		keys = append(keys, otherKey)
		r.Probe("multi_node_delete")
	}
	reqCtx, reqDone := context.WithCancel(context.Background())
	if o.Intn(2) == 0 {
		reqCtx, reqDone = context.WithTimeout(context.Background(), 10*time.Second)
	}
	_, err := e.cc.ExecCtx(reqCtx, func(context.Context, sqlx.Conn) (sql.Result, error) {
		e.db[id] = 2
		if otherID != 0 {
			e.db[otherID] = 2
		}
		return nil, nil
	}, keys...)
	reqDone() // the request is over; the background retry must not depend on it
	if extra != nil && kind <= 1 {
		// a second write while the cache is still failing: the watched key again, and another key
		if _, err := e.cc.Exec(func(sqlx.Conn) (sql.Result, error) {
			e.db[id] = 3
			e.db[extraIDs[0]], e.db[extraIDs[1]] = 3, 3
			return nil, nil
		}, key, extra[1]); err != nil {
			r.Failf("exec-error", "the second Exec returned %v: a failed cache delete is retried in the background, not reported", err)
			return
		}
		r.Probe("two_failed_deletes_sharing_their_first_key")
	}
	stillCached := srv.M.Exists(key)
	if otherSrv != nil && otherSrv.M.Exists(otherKey) {
		r.Failf("healthy-node-key-not-deleted", "the write named keys on two cache nodes; the node holding %s is healthy but the key is still cached after Exec returned", otherKey)
		return
	}
	r.Logf("exec with failing delete -> %v (key still cached: %v), fault for %v", err, stillCached, faultFor)
	r.NonTrivial()
	if err != nil {
		r.Failf("exec-error", "Exec returned %v: a failed cache delete is retried in the background, not reported", err)
		return
	}
	healed := false
	heal := func() {
		srv.FailReply = nil
		srv.DropRequest, srv.DropReply = 0, 0
		srv.Heal()
		healed = true
	}
	if kind >= 2 {
		heal() // the drop counters already make the fault transient
	}
	// watch for more than an hour after the fault heals
	var firstGone time.Duration = -1
	delsAtGone := 0
	end := t0 + faultFor + time.Hour + 10*time.Minute
	for r.Now() < end && !r.Failed() {
		if !healed && r.Now()-t0 >= faultFor {
			heal()
			r.Logf("fault healed")
		}
		step := time.Second
		if r.Now()-t0 > 2*time.Minute {
			step = 20 * time.Second
		}
		e.advance(step)
		r.Quiesce()
		if firstGone < 0 && !srv.M.Exists(key) {
			firstGone = r.Now()
			delsAtGone = srv.Count("DEL", key)
			r.Logf("key deleted, %d DEL commands seen for it so far", delsAtGone)
		}
	}
	if kind == 0 && extra == nil {
		// error replies reach the server, so every attempt is on record: the write's own delete, then retries that
		// back off - 1s, 5s, 1m, 5m, 1h after the attempt before (the wheel fires up to a tick early)
		var at []time.Duration
		for _, c := range srv.Cmds {
			if c.Name != "DEL" || c.At < t0 {
				continue
			}
			for _, a := range c.Args {
				if a == key {
					at = append(at, c.At)
					break
				}
			}
		}
		for i := 1; i < len(at) && i-1 < len(c06Delays); i++ {
			if gap := at[i] - at[i-1]; gap < c06Delays[i-1]-2*time.Second {
				r.Failf("retry-not-backing-off", "delete attempts for key %s at %v: attempt %d came %v after the one before, the schedule says %v", key, at, i+1, gap, c06Delays[i-1])
				return
			}
		}
		if len(at) > 2 {
			r.Probe("retry_schedule_checked")
		}
	}
	if !stillCached {
		// the delete took effect although the client saw a failure (lost reply): nothing stale is left
		r.Probe("delete_applied_despite_error")
	}
	if firstGone < 0 {
		r.Failf("failed-delete-never-retried-successfully", "the cache delete of key %s failed at %v (fault for %v); %v later the stale key is still cached: the background retry never succeeded (DEL commands seen: %d)", key, t0, faultFor, r.Now()-t0, srv.Count("DEL", key))
		return
	}
	// once the fault is gone the next scheduled retry must succeed: 1s,5s,1m,5m,1h after each failed attempt
	var deadline time.Duration
	acc := time.Duration(0)
	for _, d := range c06Delays {
		acc += d
		if acc > faultFor {
			deadline = t0 + acc + 30*time.Second // wheel ticks (1s per attempt) and the 20s observation step
			break
		}
	}
	if stillCached && deadline > 0 && firstGone > deadline {
		r.Failf("retry-too-late", "the fault ended %v after the failed delete, so the retry due at %v should have removed the key; it was only removed at %v", faultFor, deadline-t0, firstGone-t0)
		return
	}
	if extra != nil && kind <= 1 {
		// both pending retries name the watched key; each must get its own keys deleted
		for _, k := range extra {
			if srv.M.Exists(k) {
				r.Failf("failed-delete-never-retried-successfully", "two writes during the outage named %s plus %s and %s respectively; more than an hour after the fault ended %s is still cached: its retry was lost", key, extra[0], extra[1], k)
				return
			}
		}
	} else if n := srv.Count("DEL", key); n > delsAtGone {
		r.Failf("retry-continues-after-success", "%d more DEL commands for key %s reached Redis after the retry had succeeded", n-delsAtGone, key)
		return
	}
	row, err := e.queryPK(id, 0)
	if !e.checkRead("read after the retried delete", row, err, id) {
		return
	}
	_ = strings.Join
}
