//go:build verif

package p2c

import (
	"fmt"
	"sort"
	"testing"
	"time"

	"github.com/gotid/god/internal/zsim"
	"github.com/gotid/god/lib/logx"
	"github.com/gotid/god/lib/timex"
	"google.golang.org/grpc/balancer"
	"google.golang.org/grpc/balancer/base"
	"google.golang.org/grpc/codes"
	"google.golang.org/grpc/resolver"
	"google.golang.org/grpc/status"
)

// C14 - P2C balancer. Real: p2cPickerBuilder.Build, p2cPicker.Pick/choose/
// buildDoneFunc, subConn, codes.Acceptable, timex. Stub: SubConn values,
// callers, backend latencies and error codes.

type c14SC struct {
	balancer.SubConn
	id int
}

type c14Backend struct {
	latency time.Duration
	jitter  time.Duration
	mode    int // 0 ok, 1 always unacceptable, 2 acceptable error, 3 flaky
	// no acceptable completion has been started yet / the lowest score read after a completion until then
	sawAcceptable      bool
	lowestWhileFailing uint64
	picks              int
	dones              int
	minLag             time.Duration
	maxLag             time.Duration
	busy               int // Done calls in progress
	gen                int // Done calls started
	lastDone           time.Duration
	everDone           bool
	lastPickAt         time.Duration
	maxGap             time.Duration
}

func init() { logx.Disable() }

func TestZsimC14(t *testing.T) {
	zsim.Main(t, zsim.Harness{
		Property: "C14", Name: "p2c",
		Run:      c14Run,
		Horizon:  6 * time.Hour,
		MaxSteps: 3000000,
		Rule:     "n ready connections with drawn latency/failure profiles; 1-4 caller tasks loop Pick -> sleep(latency) -> Done(err) with drawn spacing (0..30s); or a scripted health scenario; or a starvation scenario (20 s at 50 picks/s, 200 picks/s with five or more connections); non-trivial = at least two connections and (an unacceptable completion or overlapping callers); distinct = distinct event-log fingerprint",
		Real:     []string{"rpc/internal/balancer/p2c (Build, Pick, choose, done func, subConn)", "rpc/internal/codes.Acceptable", "lib/timex", "lib/syncx.AtomicDuration"},
		Stub:     []string{"balancer.SubConn values", "caller tasks", "backend latency and error profiles"},
	})
}

var c14Unacceptable = []codes.Code{codes.DeadlineExceeded, codes.Internal, codes.Unavailable, codes.DataLoss, codes.Unimplemented}
var c14Acceptable = []codes.Code{codes.NotFound, codes.InvalidArgument, codes.Canceled, codes.PermissionDenied, codes.AlreadyExists, codes.ResourceExhausted, codes.Unknown, codes.Aborted}

func c14Build(r *zsim.Run, n int) (*p2cPicker, map[balancer.SubConn]int) {
	ready := map[balancer.SubConn]base.SubConnInfo{}
	ids := map[balancer.SubConn]int{}
	for i := 0; i < n; i++ {
		sc := &c14SC{id: i}
		ready[sc] = base.SubConnInfo{Address: resolver.Address{Addr: fmt.Sprintf("10.0.0.%d:80", i)}}
		ids[sc] = i
	}
	p := new(p2cPickerBuilder).Build(base.PickerBuildInfo{ReadySCs: ready}).(*p2cPicker)
	// Build ranges over a map: fix the order so that a seed is one execution
	sort.Slice(p.conns, func(i, j int) bool { return p.conns[i].conn.(*c14SC).id < p.conns[j].conn.(*c14SC).id })
	return p, ids
}

func (b *c14Backend) outcome(r *zsim.Run, o *zsim.Tape) (error, bool) {
	switch b.mode {
	case 1:
		return status.Error(c14Unacceptable[o.Intn(len(c14Unacceptable))], "down"), false
	case 2:
		return status.Error(c14Acceptable[o.Intn(len(c14Acceptable))], "benign"), true
	case 3:
		if o.Intn(2) == 1 {
			return status.Error(c14Unacceptable[o.Intn(len(c14Unacceptable))], "flaky"), false
		}
	}
	return nil, true
}

func c14Run(r *zsim.Run) {
	timex.ZsimReset()
	o := r.Ops
	class := o.Intn(12) // mostly random concurrent histories; 8-9 contended failing backend; 10 health scenario; 11 starvation scenario
	switch class {
	case 8, 9:
		c14Contended(r)
	case 10:
		c14Health(r)
	case 11:
		c14Starve(r)
	default:
		c14Random(r)
	}
}

// one Pick -> latency -> Done cycle with the per-step invariants
func c14Cycle(r *zsim.Run, p *p2cPicker, ids map[balancer.SubConn]int, bes []*c14Backend, o *zsim.Tape, who string) bool {
	t0 := r.Now()
	res, err := p.Pick(balancer.PickInfo{})
	if err != nil {
		r.Failf("pick-error", "Pick with %d ready connections failed: %v", len(bes), err)
		return false
	}
	id, ok := ids[res.SubConn]
	if !ok {
		r.Failf("picked-unknown-conn", "Pick returned a connection that is not in the ready set")
		return false
	}
	b := bes[id]
	b.picks++
	now := r.Now()
	if b.picks > 1 || true {
		if gap := now - b.lastPickAt; gap > b.maxGap {
			b.maxGap = gap
		}
	}
	b.lastPickAt = now
	lat := b.latency
	if b.jitter > 0 {
		lat += time.Duration(o.Intn(int(b.jitter/time.Millisecond)+1)) * time.Millisecond
	}
	if lat > 0 {
		zsim.Sleep(lat)
	}
	if b.dones == 0 && b.busy == 0 || lat < b.minLag {
		if b.dones == 0 && b.busy == 0 {
			b.minLag, b.maxLag = lat, lat
		}
		if lat < b.minLag {
			b.minLag = lat
		}
	}
	if lat > b.maxLag {
		b.maxLag = lat
	}
	defer func() {
		// a task held inside Pick or Done (stall fault) stretches what the balancer can have measured
		if el := r.Now() - t0; el > b.maxLag {
			b.maxLag = el
		}
	}()
	e, acceptable := b.outcome(r, o)
	c := p.conns[id]
	if acceptable {
		b.sawAcceptable = true
	}
	exclusive := b.busy == 0
	s0 := c.success
	b.busy++
	b.gen++
	gen := b.gen
	res.Done(balancer.DoneInfo{Err: e})
	b.busy--
	exclusive = exclusive && gen == b.gen // no other completion of this connection overlapped
	b.dones++
	s1, lag := c.success, time.Duration(c.lag)
	defer func() { b.lastDone, b.everDone = r.Now(), true }()
	r.Logf("%s conn %d lat %v err %v -> success %d lag %v inflight %d", who, id, lat, e, s1, lag, c.inflight)
	if !acceptable {
		r.FaultFired("unacceptable-completion")
	}
	if s1 > initSuccess {
		r.Failf("success-out-of-range", "connection %d: success score %d is outside [0,1000] after a completion (err=%v, before %d)", id, s1, e, s0)
		return false
	}
	if !b.sawAcceptable {
		// every completion of this connection so far was unacceptable: each one can only lower the score, so no
		// reading may lie above an earlier one - whatever the interleaving of concurrent completions
		if b.dones > 1 && s1 > b.lowestWhileFailing {
			r.Failf("failed-completions-raise-score", "connection %d: all of its %d completions were unacceptable, yet its success score is %d after one of them where it had been %d before", id, b.dones, s1, b.lowestWhileFailing)
			return false
		}
		if b.dones == 1 || s1 < b.lowestWhileFailing {
			b.lowestWhileFailing = s1
		}
	}
	if exclusive && b.busy == 0 {
		// one unit of slack: the score is a float64 EWMA truncated to an integer
		if acceptable && s1+1 < s0 {
			r.Failf("success-wrong-direction", "connection %d: success score fell from %d to %d after an acceptable completion (err=%v)", id, s0, s1, e)
			return false
		}
		if !acceptable && s1 > s0 {
			r.Failf("success-wrong-direction", "connection %d: success score rose from %d to %d after an unacceptable completion (err=%v)", id, s0, s1, e)
			return false
		}
		// an unacceptable completion at least a millisecond after the previous one must actually lower a positive score
		// (otherwise a backend failing at a high request rate would never become unhealthy)
		// (not with stalled tasks: a completion held between reading the clock and publishing it computes its decay
		// from the stale reading, which may be no later than the previous completion's)
		if !acceptable && s0 > 0 && s1 >= s0 && b.everDone && r.Now()-b.lastDone >= time.Millisecond && r.StallOdds == 0 {
			r.Failf("success-does-not-fall", "connection %d: success score stayed at %d after an unacceptable completion %v after the previous completion (err=%v)", id, s1, r.Now()-b.lastDone, e)
			return false
		}
	}
	if el := r.Now() - t0; el > b.maxLag {
		b.maxLag = el
	}
	// the estimate is a float64 EWMA truncated to integer nanoseconds: allow that rounding
	// (with stalled tasks a concurrent completion may have published a latency that includes its stall while it
	// has not yet come round to telling this harness: the upper bound is then checked on undisturbed completions only)
	if lag+time.Microsecond < b.minLag || lag > b.maxLag+time.Microsecond && (r.StallOdds == 0 || exclusive && b.busy == 0) {
		r.Failf("lag-out-of-range", "connection %d: latency estimate %v is outside the observed latencies [%v, %v]", id, lag, b.minLag, b.maxLag)
		return false
	}
	return true
}

func c14Inflight(r *zsim.Run, p *p2cPicker, bes []*c14Backend) bool {
	for i, c := range p.conns {
		if want := int64(bes[i].picks - bes[i].dones); c.inflight != want {
			r.Failf("inflight-mismatch", "connection %d: in-flight count %d, but picks-completions = %d-%d", i, c.inflight, bes[i].picks, bes[i].dones)
			return false
		}
	}
	return true
}

func c14Random(r *zsim.Run) {
	o := r.Ops
	n := zsim.Pick(o, 3, 1, 2, 5, 8)
	p, ids := c14Build(r, n)
	bes := make([]*c14Backend, n)
	for i := range bes {
		bes[i] = &c14Backend{
			latency: zsim.Pick(o, 10*time.Millisecond, 0, time.Millisecond, 100*time.Millisecond, 500*time.Millisecond, 2*time.Second),
			mode:    zsim.Pick(o, 0, 0, 1, 2, 3),
		}
		if o.Intn(2) == 1 {
			bes[i].jitter = 20 * time.Millisecond
		}
	}
	callers := 1 + o.Intn(4)
	if o.Intn(4) == 0 {
		// tasks may be held at scheduling points, e.g. between reading the clock and publishing it
		r.StallOdds = zsim.Pick(o, 8, 30)
		r.StallUnit = time.Millisecond
	}
	r.Logf("random n=%d callers=%d stalls=%d backends=%v", n, callers, r.StallOdds, c14Desc(bes))
	if n >= 2 && callers > 1 {
		r.NonTrivial()
	}
	doneCnt := 0
	for c := 0; c < callers; c++ {
		who := fmt.Sprintf("caller%d", c)
		steps := 3 + o.Intn(25)
		r.Go(who, func() {
			defer func() { doneCnt++ }()
			for s := 0; s < steps && !r.Failed(); s++ {
				if !c14Cycle(r, p, ids, bes, o, who) {
					return
				}
				gap := zsim.Pick(o, time.Duration(0), time.Millisecond, 10*time.Millisecond, 100*time.Millisecond, time.Second, 5*time.Second, 30*time.Second)
				if gap > 0 {
					zsim.Sleep(gap)
				}
			}
		})
	}
	if !r.WaitFor(3*time.Hour, time.Second, func() bool { return doneCnt == callers }) {
		r.Failf("callers-stuck", "callers did not finish: %v", r.Alive(false))
		return
	}
	if r.Failed() {
		return
	}
	c14Inflight(r, p, bes)
}

// c14Contended: one or two backends that always fail, four callers completing calls on them within milliseconds of
// each other, tasks held at scheduling points for up to 40ms: a completion's update of the score interleaves with
// others'. Every completion is unacceptable, so the score must never be read higher than before.
func c14Contended(r *zsim.Run) {
	o := r.Ops
	n := 1 + o.Intn(2)
	p, ids := c14Build(r, n)
	bes := make([]*c14Backend, n)
	for i := range bes {
		bes[i] = &c14Backend{latency: zsim.Pick(o, time.Duration(0), time.Millisecond, 10*time.Millisecond), mode: 1}
	}
	r.StallOdds = zsim.Pick(o, 3, 5)
	r.StallUnit = time.Millisecond
	callers := 4
	r.Logf("contended n=%d stalls=%d backends=%v", n, r.StallOdds, c14Desc(bes))
	r.NonTrivial()
	doneCnt := 0
	for c := 0; c < callers; c++ {
		who := fmt.Sprintf("caller%d", c)
		steps := 20 + o.Intn(30)
		r.Go(who, func() {
			defer func() { doneCnt++ }()
			for s := 0; s < steps && !r.Failed(); s++ {
				if !c14Cycle(r, p, ids, bes, o, who) {
					return
				}
				if gap := zsim.Pick(o, time.Duration(0), 0, 0, time.Millisecond); gap > 0 {
					zsim.Sleep(gap)
				}
			}
		})
	}
	if !r.WaitFor(3*time.Hour, time.Second, func() bool { return doneCnt == callers }) {
		r.Failf("callers-stuck", "callers did not finish: %v", r.Alive(false))
		return
	}
	if r.Failed() {
		return
	}
	c14Inflight(r, p, bes)
}

func c14Desc(bes []*c14Backend) string {
	s := ""
	for i, b := range bes {
		s += fmt.Sprintf("[%d lat=%v mode=%d]", i, b.latency, b.mode)
	}
	return s
}

// A backend whose calls all fail becomes unhealthy after a bounded number of
// completions and is then chosen markedly less often than its healthy peers.
func c14Health(r *zsim.Run) {
	o := r.Ops
	n := zsim.Pick(o, 3, 4, 5, 8)
	p, ids := c14Build(r, n)
	lat := zsim.Pick(o, 10*time.Millisecond, time.Millisecond, 50*time.Millisecond)
	bes := make([]*c14Backend, n)
	for i := range bes {
		bes[i] = &c14Backend{latency: lat}
	}
	bad := o.Intn(n)
	bes[bad].mode = 1
	r.NonTrivial()
	r.Logf("health n=%d bad=%d lat=%v", n, bad, lat)
	// phase 1: picks 250ms apart (so the failing backend's completions are
	// at least 250ms apart: each one multiplies its score by <= exp(-0.025))
	// until it completed 60 calls
	for i := 0; i < 1500 && bes[bad].dones < 60; i++ {
		if !c14Cycle(r, p, ids, bes, o, "h1") {
			return
		}
		zsim.Sleep(250 * time.Millisecond)
	}
	if bes[bad].dones < 60 {
		if !p.conns[bad].healthy() {
			r.Probe("bad_backend_unhealthy_early")
		} else {
			r.Failf("never-picked", "the failing backend completed only %d calls in 1500 picks 250ms apart and is still healthy", bes[bad].dones)
			return
		}
	}
	if p.conns[bad].healthy() {
		r.Failf("failing-backend-stays-healthy", "backend %d failed all of its %d completions (>= 250ms apart) and is still considered healthy (success %d)", bad, bes[bad].dones, p.conns[bad].success)
		return
	}
	r.Probe("bad_backend_unhealthy")
	// phase 2: 1000 picks at 50/s
	base := make([]int, n)
	for i := range bes {
		base[i] = bes[i].picks
	}
	for i := 0; i < 1000; i++ {
		if !c14Cycle(r, p, ids, bes, o, "h2") {
			return
		}
		zsim.Sleep(20*time.Millisecond - lat%(20*time.Millisecond))
	}
	minHealthy := 1 << 30
	for i := range bes {
		if i != bad && bes[i].picks-base[i] < minHealthy {
			minHealthy = bes[i].picks - base[i]
		}
	}
	badPicks := bes[bad].picks - base[bad]
	r.Logf("phase2 bad picks %d min healthy %d", badPicks, minHealthy)
	if badPicks*10 >= minHealthy*7 {
		r.Failf("failing-backend-not-avoided", "with %d backends the always-failing one received %d of 1000 picks while the least used healthy one received %d", n, badPicks, minHealthy)
		return
	}
	if o.Intn(2) == 0 {
		// phase 3: the backend recovers while traffic goes on at a high rate (four callers back to back): with
		// every completion acceptable its score must come back
		bes[bad].mode = 0
		before, s0 := bes[bad].dones, p.conns[bad].success
		start := r.Now()
		callers, doneCnt := 4, 0
		for c := 0; c < callers; c++ {
			who := fmt.Sprintf("h3-%d", c)
			r.Go(who, func() {
				defer func() { doneCnt++ }()
				for r.Now() < start+30*time.Second && !r.Failed() {
					if !c14Cycle(r, p, ids, bes, o, who) {
						return
					}
				}
			})
		}
		if !r.WaitFor(time.Hour, time.Second, func() bool { return doneCnt == callers }) {
			r.Failf("callers-stuck", "callers did not finish: %v", r.Alive(false))
			return
		}
		if r.Failed() {
			return
		}
		got := bes[bad].dones - before
		r.Logf("phase3 recovered backend completed %d calls in 30s, success %d -> %d", got, s0, p.conns[bad].success)
		if got >= 300 && !p.conns[bad].healthy() {
			r.Failf("recovered-backend-stays-unhealthy", "backend %d recovered: %d acceptable completions in 30s of sustained traffic (latency %v), but its success score went from %d to only %d and it still counts as unhealthy", bad, got, lat, s0, p.conns[bad].success)
			return
		}
		r.Probe("recovery_checked")
	}
	c14Inflight(r, p, bes)
}

// Under sustained traffic every connection is picked about once per second.
func c14Starve(r *zsim.Run) {
	o := r.Ops
	n := zsim.Pick(o, 3, 2, 5, 8)
	p, ids := c14Build(r, n)
	bes := make([]*c14Backend, n)
	for i := range bes {
		bes[i] = &c14Backend{latency: zsim.Pick(o, 5*time.Millisecond, time.Millisecond, 15*time.Millisecond, 200*time.Millisecond), mode: zsim.Pick(o, 0, 0, 1)}
		if n >= 5 && bes[i].latency > 40*time.Millisecond {
			// (a slow backend makes the pick rate fall below what the bound assumes: with many backends nearly
			// every run would have one and go unchecked)
			bes[i].latency = 25 * time.Millisecond
		}
	}
	r.NonTrivial()
	r.Logf("starve n=%d backends=%v", n, c14Desc(bes))
	// 50 picks a second; four times as many with five or more backends, where an unhealthy one survives the
	// pair re-draws only (2/n)^3 of the time and must still be seen about once a second
	callers := 2
	if n >= 5 {
		callers = 8
	}
	doneCnt := 0
	for c := 0; c < callers; c++ {
		who := fmt.Sprintf("s%d", c)
		r.Go(who, func() {
			defer func() { doneCnt++ }()
			end := r.Now() + 20*time.Second
			for r.Now() < end && !r.Failed() {
				start := r.Now()
				if !c14Cycle(r, p, ids, bes, o, who) {
					return
				}
				// each caller issues >= 25 picks per second (50/s together) by pipelining: never wait longer than 40ms per cycle
				if el := r.Now() - start; el < 40*time.Millisecond {
					zsim.Sleep(40*time.Millisecond - el)
				}
			}
		})
	}
	if !r.WaitFor(time.Hour, time.Second, func() bool { return doneCnt == callers }) {
		r.Failf("callers-stuck", "callers did not finish: %v", r.Alive(false))
		return
	}
	if r.Failed() {
		return
	}
	slow := false
	for _, b := range bes {
		if b.latency > 40*time.Millisecond {
			slow = true
		}
	}
	if !slow {
		for i, b := range bes {
			// "about once per second" is statistical: a healthy connection shows
			// up in the random pair 2/n of the time (>= 12 times a second here)
			// and is then picked unless it was picked within the last second; an
			// unhealthy one only survives the three pair re-draws (2/n)^3 of the
			// time, so for it the bound is 10s: missing it that long has a
			// probability below 1e-12 per gap at these pick rates.
			bound := 3 * time.Second
			if b.mode != 0 {
				// n = 8 at 200 picks/s: in the final pair 3 times a second, a 10s gap has probability e^-30
				bound = 10 * time.Second
			}
			if b.maxGap > bound || r.Now()-b.lastPickAt > bound {
				r.Failf("connection-starved", "under >= 50 picks/s connection %d (mode %d) went unpicked for %v (last pick at %v of %v)", i, b.mode, b.maxGap, b.lastPickAt, r.Now())
				return
			}
		}
		r.Probe("starvation_checked")
	}
	c14Inflight(r, p, bes)
}
