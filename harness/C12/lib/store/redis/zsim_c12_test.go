//go:build verif

package redis

import (
	"context"
	"encoding/json"
	"fmt"
	"reflect"
	"sort"
	"strings"
	"testing"
	"time"

	red "github.com/go-redis/redis/v8"
	"github.com/gotid/god/internal/zsim"
	"github.com/gotid/god/internal/zsim/zredis"
	"github.com/gotid/god/lib/logx"
	"github.com/gotid/god/lib/timex"
)

// C12 (wrapper half) - every command method of the Redis wrapper has the
// same effect on the server and returns the same result (after the
// documented type conversion) as the go-redis command with the same
// arguments, in plain and context form. Real: lib/store/redis (methods
// reached by reflection), client manager, breaker, go-redis, miniredis.
// Reference: raw go-redis against a twin miniredis fed the same history.

func init() { logx.Disable() }

func TestZsimC12(t *testing.T) {
	zsim.Main(t, zsim.Harness{
		Property: "C12", Name: "rediswrapper",
		Run:      c12Run,
		Horizon:  time.Hour,
		MaxSteps: 400000,
		Rule:     "random command histories over typed key pools (string, hash, list, set, sorted set, hyperloglog, bitmap) issued through the wrapper (plain or Ctx form, drawn) to server A and through raw go-redis to twin server B; methods whose go-redis namesake has the same parameter list are driven by reflection, the others by hand adapters; results compared after every command (redis.Nil may become a zero value without error in Get/GetSet only), keyspaces (values + TTLs) after every history; plus a breaker class (connection failures must trip the per-address breaker, redis.Nil and cancelled contexts must not); non-trivial = at least one command changed the keyspace; distinct = distinct event-log fingerprint",
		Real:     []string{"lib/store/redis wrapper methods (reflection-driven), clientmanager, hook", "lib/breaker (per address)", "go-redis", "miniredis x2 (twin)"},
		Stub:     []string{"network (simulated transport)", "argument generator"},
	})
}

type c12Method struct {
	name  string
	plain reflect.Method
	ctx   *reflect.Method
	ref   reflect.Method
}

var c12Auto []c12Method
var c12Skipped []string

// methods that cannot be driven blindly (blocking, node argument, scripts, scans with cursors are handled by adapters or skipped)
var c12Exclude = map[string]bool{"BLPop": true, "BLPopEx": true, "BLPopWithTimeout": true, "Pipelined": true, "String": true, "Ping": true,
	// miniredis v2.23.1 leaves a set key without its member map after a *STORE of an empty result and then panics on SADD
	"SDiffStore": true, "SInterStore": true, "SUnionStore": true,
	"Eval": true, "EvalSha": true, "ScriptLoad": true, "Keys": true, "Scan": true, "SScan": true, "HScan": true, "SPop": true, "SRandMember": true}

func init() {
	wt := reflect.TypeOf(&Redis{})
	ct := reflect.TypeOf((*red.Client)(nil))
	for i := 0; i < wt.NumMethod(); i++ {
		m := wt.Method(i)
		if strings.HasSuffix(m.Name, "Ctx") || c12Exclude[m.Name] || strings.HasPrefix(m.Name, "Zsim") {
			continue
		}
		ref, ok := ct.MethodByName(m.Name)
		if !ok {
			c12Skipped = append(c12Skipped, m.Name+"(no namesake)")
			continue
		}
		// same parameter list? wrapper: (recv, args...) ; go-redis: (recv, ctx, args...)
		same := m.Type.NumIn()+1 == ref.Type.NumIn() && m.Type.IsVariadic() == ref.Type.IsVariadic()
		for j := 1; same && j < m.Type.NumIn(); j++ {
			if m.Type.In(j) != ref.Type.In(j+1) {
				same = false
			}
		}
		if !same {
			c12Skipped = append(c12Skipped, m.Name+"(different parameters)")
			continue
		}
		cm := c12Method{name: m.Name, plain: m, ref: ref}
		if c, ok := wt.MethodByName(m.Name + "Ctx"); ok {
			cm.ctx = &c
		}
		c12Auto = append(c12Auto, cm)
	}
}

var c12Pools = map[string][]string{
	"s": {"s1", "s2", "s3"}, "h": {"h1", "h2"}, "l": {"l1", "l2"}, "set": {"set1", "set2", "set3"}, "z": {"z1", "z2"}, "hll": {"hll1", "hll2"}, "b": {"b1", "b2", "b3"},
}

func c12KeyFor(o *zsim.Tape, method string) string {
	kind := "s"
	switch {
	case strings.HasPrefix(method, "HM"), strings.HasPrefix(method, "H"):
		kind = "h"
	case strings.HasPrefix(method, "PF"):
		kind = "hll"
	case strings.HasPrefix(method, "Z"):
		kind = "z"
	case strings.HasPrefix(method, "L"), strings.HasPrefix(method, "RP"):
		kind = "l"
	case strings.Contains(method, "Bit"):
		kind = "b"
	case strings.HasPrefix(method, "S") && !strings.HasPrefix(method, "Set"):
		kind = "set"
	}
	if o.Intn(10) == 9 {
		kinds := []string{"s", "h", "l", "set", "z", "hll", "b"}
		kind = kinds[o.Intn(len(kinds))]
	}
	p := c12Pools[kind]
	if o.Intn(8) == 7 {
		return "absent" + fmt.Sprint(o.Intn(2))
	}
	return p[o.Intn(len(p))]
}

var c12Members = []string{"a", "b", "c", "1", "2", "10", "hello"}

func c12Args(o *zsim.Tape, m c12Method) ([]reflect.Value, bool) {
	t := m.plain.Type
	var args []reflect.Value
	first := true
	for j := 1; j < t.NumIn(); j++ {
		pt := t.In(j)
		variadic := t.IsVariadic() && j == t.NumIn()-1
		if variadic {
			n := 1 + o.Intn(3)
			for k := 0; k < n; k++ {
				var v reflect.Value
				switch pt.Elem().Kind() {
				case reflect.String:
					if strings.HasPrefix(m.name, "BitOp") || m.name == "MGet" || m.name == "Del" || strings.HasPrefix(m.name, "SUnion") || strings.HasPrefix(m.name, "SDiff") || strings.HasPrefix(m.name, "SInter") || m.name == "PFMerge" {
						v = reflect.ValueOf(c12KeyFor(o, m.name))
					} else {
						v = reflect.ValueOf(c12Members[o.Intn(len(c12Members))])
					}
				case reflect.Interface:
					v = reflect.ValueOf(c12Members[o.Intn(len(c12Members))])
					nv := reflect.New(pt.Elem()).Elem()
					nv.Set(v)
					v = nv
				default:
					return nil, false
				}
				args = append(args, v)
			}
			continue
		}
		switch pt.Kind() {
		case reflect.String:
			if first {
				args = append(args, reflect.ValueOf(c12KeyFor(o, m.name)))
				first = false
			} else if (strings.HasPrefix(m.name, "BitOp") || strings.HasSuffix(m.name, "Store")) && j == 2 {
				args = append(args, reflect.ValueOf(c12KeyFor(o, m.name)))
			} else {
				args = append(args, reflect.ValueOf(c12Members[o.Intn(len(c12Members))]))
			}
		case reflect.Int, reflect.Int64:
			v := reflect.New(pt).Elem()
			v.SetInt(int64(zsim.Pick(o, 1, 0, -1, 2, 3, 5, 10, 100)))
			args = append(args, v)
		case reflect.Uint64:
			v := reflect.New(pt).Elem()
			args = append(args, v)
		case reflect.Float64:
			args = append(args, reflect.ValueOf(zsim.Pick(o, 1.0, 0.5, 2.5, -1.0)))
		case reflect.Interface:
			v := reflect.New(pt).Elem()
			v.Set(reflect.ValueOf(c12Members[o.Intn(len(c12Members))]))
			args = append(args, v)
		case reflect.Map:
			if pt.Key().Kind() == reflect.String && pt.Elem().Kind() == reflect.String {
				mm := reflect.MakeMap(pt)
				for k := 0; k < 1+o.Intn(2); k++ {
					mm.SetMapIndex(reflect.ValueOf(c12Members[o.Intn(3)]), reflect.ValueOf(c12Members[o.Intn(len(c12Members))]))
				}
				args = append(args, mm)
			} else {
				return nil, false
			}
		default:
			return nil, false
		}
	}
	return args, true
}

func c12Seed(s *zredis.Server) {
	m := s.M
	m.Seed(42)
	m.Set("s1", "10")
	m.Set("s2", "hello")
	m.HSet("h1", "a", "1", "b", "x")
	m.Lpush("l1", "a")
	m.Lpush("l1", "b")
	m.SAdd("set1", "a", "b", "1")
	m.SAdd("set2", "b", "c")
	m.ZAdd("z1", 1, "a")
	m.ZAdd("z1", 2, "b")
	m.ZAdd("z1", 10, "c")
	m.Set("b1", "\xff\x0f")
	m.Set("b3", "\xff\xff\xff") // no clear bit at all: BITPOS 0 answers differently with and without an explicit end
}

// c12Dump is the server's textual dump without the (randomly seeded) HyperLogLog registers; those are compared through PFCOUNT
func c12Dump(s *zredis.Server) string {
	var out []string
	skip := false
	for _, ln := range strings.Split(s.M.Dump(), "\n") {
		if strings.HasPrefix(ln, "- ") {
			skip = s.M.Type(strings.TrimPrefix(ln, "- ")) == "hll"
			if skip {
				n, _ := s.M.PfCount(strings.TrimPrefix(ln, "- "))
				out = append(out, ln+fmt.Sprintf(" (hyperloglog, count %d)", n))
			}
		}
		if !skip {
			out = append(out, ln)
		}
	}
	return strings.Join(out, "\n")
}

// canon renders a value so that the documented conversions compare equal
func c12Canon(v any) string {
	switch x := v.(type) {
	case nil:
		return "<nil>"
	case bool:
		if x {
			return "1"
		}
		return "0"
	case int, int64, uint64, int32:
		return fmt.Sprint(x)
	case float64:
		if x == float64(int64(x)) {
			return fmt.Sprint(int64(x))
		}
		return fmt.Sprint(x)
	case time.Duration:
		if x < 0 {
			return fmt.Sprint(int64(x))
		}
		return fmt.Sprint(int64(x / time.Second))
	case string:
		return "s:" + x
	case []string:
		return "[" + strings.Join(x, ",") + "]"
	case []any:
		var parts []string
		for _, e := range x {
			if e == nil {
				parts = append(parts, "")
			} else {
				parts = append(parts, fmt.Sprint(e))
			}
		}
		return "[" + strings.Join(parts, ",") + "]"
	case []Pair:
		var parts []string
		for _, e := range x {
			parts = append(parts, fmt.Sprintf("%s:%d", e.Member, e.Score))
		}
		return "P[" + strings.Join(parts, ",") + "]"
	case []red.Z:
		var parts []string
		for _, e := range x {
			parts = append(parts, fmt.Sprintf("%v:%d", e.Member, int64(e.Score)))
		}
		return "P[" + strings.Join(parts, ",") + "]"
	case map[string]string:
		var keys []string
		for k := range x {
			keys = append(keys, k)
		}
		sort.Strings(keys)
		s := "{"
		for _, k := range keys {
			s += k + "=" + x[k] + ","
		}
		return s + "}"
	}
	if b, err := json.Marshal(v); err == nil {
		return "j:" + string(b)
	}
	return fmt.Sprintf("%T:%v", v, v)
}

// replies whose order Redis does not define
var c12Unordered = map[string]bool{"SMembers": true, "SUnion": true, "SDiff": true, "SInter": true, "HKeys": true, "HVals": true}

// the methods documented to turn a missing key into the zero value without an error; everywhere else redis.Nil
// reaches the caller as it does with go-redis
var c12SwallowsNil = map[string]bool{"Get": true, "GetSet": true}

func c12Equal(name string, wvals []any, werr error, rval any, rerr error) (bool, string) {
	if c12Unordered[name] {
		if l, ok := rval.([]string); ok {
			l = append([]string(nil), l...)
			sort.Strings(l)
			rval = l
		}
		for i, w := range wvals {
			if l, ok := w.([]string); ok {
				l = append([]string(nil), l...)
				sort.Strings(l)
				wvals[i] = l
			}
		}
	}
	var ws []string
	for _, w := range wvals {
		ws = append(ws, c12Canon(w))
	}
	desc := fmt.Sprintf("wrapper (%v, %v) vs go-redis (%v, %v)", ws, werr, c12Canon(rval), rerr)
	if rerr == red.Nil {
		if werr == red.Nil {
			return true, desc
		}
		if werr == nil && c12SwallowsNil[strings.TrimSuffix(name, "Ctx")] {
			for _, v := range wvals {
				if !reflect.ValueOf(v).IsZero() {
					return false, desc
				}
			}
			return true, desc
		}
		return false, desc
	}
	if (werr == nil) != (rerr == nil) {
		return false, desc
	}
	if werr != nil {
		return werr.Error() == rerr.Error(), desc
	}
	if len(wvals) == 0 {
		return true, desc // the wrapper only reports the error
	}
	w := wvals[0]
	// documented conversion: scores are reported as int64 (truncated) where go-redis has float64
	if f, ok := rval.(float64); ok {
		if _, isInt := w.(int64); isInt {
			rval = int64(f)
		}
	}
	// bool result derived from an integer reply: true iff >= 1
	if wb, ok := w.(bool); ok {
		switch rv := rval.(type) {
		case int64:
			return wb == (rv >= 1), desc
		case bool:
			return wb == rv, desc
		case string:
			return wb == (rv == "OK" || rv == "PONG"), desc
		}
	}
	return c12Canon(w) == c12Canon(rval), desc
}

func c12Run(r *zsim.Run) {
	timex.ZsimReset()
	ZsimResetClients()
	if r.Ops.Intn(6) == 5 {
		c12Breaker(r)
		return
	}
	o := r.Ops
	// error replies (wrong type of key, wrong arity) are failures for the wrapper's per-address breaker; in the
	// transparency class its random source is steered so that it never rejects (the breaker has a class of its own)
	r.RandMode = 2
	a := zredis.Start(r, "sim-a:6379")
	b := zredis.Start(r, "sim-b:6379")
	defer a.Close()
	defer b.Close()
	c12Seed(a)
	c12Seed(b)
	ZsimRegister(a.Addr, a.Client)
	w := New(a.Addr)
	ctx := context.Background()
	n := 5 + o.Intn(40)
	for i := 0; i < n && !r.Failed(); i++ {
		if o.Intn(12) == 11 {
			d := time.Duration(1+o.Intn(8)) * time.Second
			zsim.Sleep(d)
			a.M.FastForward(d)
			b.M.FastForward(d)
			continue
		}
		if o.Intn(5) == 4 {
			if !c12Adapter(r, w, a, b, ctx) {
				return
			}
			continue
		}
		m := c12Auto[o.Intn(len(c12Auto))]
		args, ok := c12Args(o, m)
		if !ok {
			r.Probe("ungeneratable_" + m.name)
			continue
		}
		useCtx := m.ctx != nil && o.Intn(2) == 1
		before := a.M.Dump()
		var outs []reflect.Value
		if useCtx {
			outs = m.ctx.Func.Call(append([]reflect.Value{reflect.ValueOf(w), reflect.ValueOf(ctx)}, args...))
		} else {
			outs = m.plain.Func.Call(append([]reflect.Value{reflect.ValueOf(w)}, args...))
		}
		cmd := m.ref.Func.Call(append([]reflect.Value{reflect.ValueOf(b.Client), reflect.ValueOf(ctx)}, args...))[0]
		res := cmd.MethodByName("Result").Call(nil)
		var rval any
		var rerr error
		if len(res) == 2 {
			rval = res[0].Interface()
			if !res[1].IsNil() {
				rerr = res[1].Interface().(error)
			}
		} else if !res[0].IsNil() {
			rerr = res[0].Interface().(error)
		}
		var wvals []any
		var werr error
		for k, ov := range outs {
			if k == len(outs)-1 && ov.Type().String() == "error" {
				if !ov.IsNil() {
					werr = ov.Interface().(error)
				}
			} else {
				wvals = append(wvals, ov.Interface())
			}
		}
		var as []string
		for _, x := range args {
			as = append(as, fmt.Sprint(x.Interface()))
		}
		eq, desc := c12Equal(m.name, wvals, werr, rval, rerr)
		r.Logf("%s%s(%s): %s", m.name, map[bool]string{true: "Ctx", false: ""}[useCtx], strings.Join(as, ","), desc)
		r.Probe("auto_" + m.name)
		if !eq {
			r.Failf("result-differs", "%s(%s): %s", m.name, strings.Join(as, ","), desc)
			return
		}
		if a.M.Dump() != before {
			r.NonTrivial()
		}
		if da, db := c12Dump(a), c12Dump(b); da != db {
			r.Failf("effect-differs", "after %s(%s) the two servers hold different data:\n--- wrapper side\n%s--- go-redis side\n%s", m.name, strings.Join(as, ","), da, db)
			return
		}
	}
	if r.Failed() {
		return
	}
	for _, k := range a.M.Keys() {
		if ta, tb := a.M.TTL(k), b.M.TTL(k); ta != tb {
			r.Failf("ttl-differs", "key %s has TTL %v on the wrapper side and %v on the go-redis side", k, ta, tb)
			return
		}
	}
}

// hand adapters for methods whose packaging of arguments differs from go-redis
func c12Adapter(r *zsim.Run, w *Redis, a, b *zredis.Server, ctx context.Context) bool {
	o := r.Ops
	cl := b.Client
	check := func(name string, args string, wv any, werr error, rv any, rerr error) bool {
		var wvals []any
		if wv != nil {
			wvals = []any{wv}
		}
		// documented conversion: scores are reported as int64 (truncated) where go-redis has float64
		if f, ok := rv.(float64); ok {
			if _, isInt := wv.(int64); isInt {
				rv = int64(f)
			}
		}
		eq, desc := c12Equal(name, wvals, werr, rv, rerr)
		r.Logf("%s(%s): %s", name, args, desc)
		r.Probe("adapter_" + name)
		if !eq {
			r.Failf("result-differs", "%s(%s): %s", name, args, desc)
			return false
		}
		return true
	}
	switch o.Intn(37) {
	case 0:
		k, v, s := c12KeyFor(o, "Set"), c12Members[o.Intn(7)], 1+o.Intn(20)
		werr := w.SetEx(k, v, s)
		rv, rerr := cl.SetEX(ctx, k, v, time.Duration(s)*time.Second).Result()
		return check("SetEx", fmt.Sprint(k, v, s), nil, werr, rv, rerr)
	case 1:
		k, s := c12KeyFor(o, "Set"), 1+o.Intn(20)
		werr := w.Expire(k, s)
		rv, rerr := cl.Expire(ctx, k, time.Duration(s)*time.Second).Result()
		return check("Expire", fmt.Sprint(k, s), nil, werr, rv, rerr)
	case 2:
		k := c12KeyFor(o, "Set")
		wv, werr := w.TTL(k)
		rv, rerr := cl.TTL(ctx, k).Result()
		return check("TTL", k, wv, werr, rv, rerr)
	case 3:
		k, sc, mb := c12KeyFor(o, "ZAdd"), int64(o.Intn(20)), c12Members[o.Intn(7)]
		wv, werr := w.ZAdd(k, sc, mb)
		rv, rerr := cl.ZAdd(ctx, k, &red.Z{Score: float64(sc), Member: mb}).Result()
		return check("ZAdd", fmt.Sprint(k, sc, mb), wv, werr, rv, rerr)
	case 4:
		k, mb := c12KeyFor(o, "ZScore"), c12Members[o.Intn(7)]
		wv, werr := w.ZScore(k, mb)
		rv, rerr := cl.ZScore(ctx, k, mb).Result()
		return check("ZScore", fmt.Sprint(k, mb), wv, werr, rv, rerr)
	case 5:
		k, fld, inc := c12KeyFor(o, "HIncrBy"), c12Members[o.Intn(7)], o.Intn(5)
		wv, werr := w.HIncrBy(k, fld, inc)
		rv, rerr := cl.HIncrBy(ctx, k, fld, int64(inc)).Result()
		return check("HIncrBy", fmt.Sprint(k, fld, inc), wv, werr, rv, rerr)
	case 6:
		k := c12KeyFor(o, "Exists")
		wv, werr := w.Exists(k)
		rv, rerr := cl.Exists(ctx, k).Result()
		return check("Exists", k, wv, werr, rv, rerr)
	case 7:
		k, a, z := c12KeyFor(o, "LRange"), o.Intn(3)-1, o.Intn(5)-1
		wv, werr := w.LRange(k, a, z)
		rv, rerr := cl.LRange(ctx, k, int64(a), int64(z)).Result()
		return check("LRange", fmt.Sprint(k, a, z), wv, werr, rv, rerr)
	case 8:
		k, v, s := c12KeyFor(o, "Set"), c12Members[o.Intn(7)], 1+o.Intn(20)
		wv, werr := w.SetNXEx(k, v, s)
		rv, rerr := cl.SetNX(ctx, k, v, time.Duration(s)*time.Second).Result()
		return check("SetNXEx", fmt.Sprint(k, v, s), wv, werr, rv, rerr)
	case 9:
		k := c12KeyFor(o, "ZAdds")
		ps := []Pair{{Member: c12Members[o.Intn(7)], Score: int64(o.Intn(9))}, {Member: c12Members[o.Intn(7)], Score: int64(o.Intn(9))}}
		wv, werr := w.ZAdds(k, ps...)
		rv, rerr := cl.ZAdd(ctx, k, &red.Z{Score: float64(ps[0].Score), Member: ps[0].Member}, &red.Z{Score: float64(ps[1].Score), Member: ps[1].Member}).Result()
		return check("ZAdds", fmt.Sprint(k, ps), wv, werr, rv, rerr)
	case 10:
		k, a, z := c12KeyFor(o, "ZRangeWithScores"), int64(o.Intn(2)), int64(o.Intn(6)-1)
		wv, werr := w.ZRangeWithScores(k, a, z)
		rz, rerr := cl.ZRangeWithScores(ctx, k, a, z).Result()
		var rp []Pair
		for _, e := range rz {
			rp = append(rp, Pair{Member: fmt.Sprint(e.Member), Score: int64(e.Score)})
		}
		return check("ZRangeWithScores", fmt.Sprint(k, a, z), fmt.Sprint(wv), werr, fmt.Sprint(rp), rerr)
	case 11:
		k, a, z := c12KeyFor(o, "ZCount"), int64(o.Intn(3)), int64(o.Intn(12))
		wv, werr := w.ZCount(k, a, z)
		rv, rerr := cl.ZCount(ctx, k, fmt.Sprint(a), fmt.Sprint(z)).Result()
		return check("ZCount", fmt.Sprint(k, a, z), wv, werr, rv, rerr)
	case 12:
		k := c12KeyFor(o, "SPop")
		wv, werr := w.SPop(k)
		rv, rerr := cl.SPop(ctx, k).Result()
		return check("SPop", k, wv, werr, rv, rerr)
	case 13:
		script := "redis.call('set', KEYS[1], ARGV[1]); return redis.call('get', KEYS[1])"
		k, v := c12KeyFor(o, "Set"), c12Members[o.Intn(7)]
		wv, werr := w.Eval(script, []string{k}, v)
		rv, rerr := cl.Eval(ctx, script, []string{k}, v).Result()
		return check("Eval", fmt.Sprint(k, v), wv, werr, rv, rerr)
	case 14:
		k, a, z := c12KeyFor(o, "BitCount"), int64(o.Intn(3)), int64(o.Intn(4)-1)
		wv, werr := w.BitCount(k, a, z)
		rv, rerr := cl.BitCount(ctx, k, &red.BitCount{Start: a, End: z}).Result()
		return check("BitCount", fmt.Sprint(k, a, z), wv, werr, rv, rerr)
	case 15:
		k, bit, a, z := c12KeyFor(o, "BitPos"), int64(o.Intn(2)), int64(o.Intn(2)), int64(o.Intn(3)-1)
		wv, werr := w.BitPos(k, bit, a, z)
		rv, rerr := cl.BitPos(ctx, k, bit, a, z).Result()
		return check("BitPos", fmt.Sprint(k, bit, a, z), wv, werr, rv, rerr)
	case 16:
		k, at := c12KeyFor(o, "Set"), time.Now().Unix()+int64(o.Intn(30))-2
		werr := w.ExpireAt(k, at)
		rv, rerr := cl.ExpireAt(ctx, k, time.Unix(at, 0)).Result()
		return check("ExpireAt", fmt.Sprint(k, at), nil, werr, rv, rerr)
	case 17:
		k, v := c12KeyFor(o, "Set"), c12Members[o.Intn(7)]
		wv, werr := w.GetSet(k, v)
		rv, rerr := cl.GetSet(ctx, k, v).Result()
		return check("GetSet", fmt.Sprint(k, v), wv, werr, rv, rerr)
	case 18:
		k, fld, v := c12KeyFor(o, "HSet"), c12Members[o.Intn(7)], c12Members[o.Intn(7)]
		werr := w.HSet(k, fld, v)
		rv, rerr := cl.HSet(ctx, k, fld, v).Result()
		return check("HSet", fmt.Sprint(k, fld, v), nil, werr, rv, rerr)
	case 19:
		k, fld, v := c12KeyFor(o, "HSetNX"), c12Members[o.Intn(7)], c12Members[o.Intn(7)]
		wv, werr := w.HSetNX(k, fld, v)
		rv, rerr := cl.HSetNX(ctx, k, fld, v).Result()
		return check("HSetNX", fmt.Sprint(k, fld, v), wv, werr, rv, rerr)
	case 20:
		k := c12KeyFor(o, "HMSet")
		m := map[string]string{c12Members[o.Intn(3)]: c12Members[o.Intn(7)], c12Members[3+o.Intn(3)]: c12Members[o.Intn(7)]}
		werr := w.HMSet(k, m)
		rv, rerr := cl.HMSet(ctx, k, m).Result()
		return check("HMSet", fmt.Sprint(k, c12Canon(m)), nil, werr, rv, rerr)
	case 21:
		pat := zsim.Pick(o, "s*", "*1", "h?", "nothing*")
		wv, werr := w.Keys(pat)
		rv, rerr := cl.Keys(ctx, pat).Result()
		sort.Strings(wv)
		sort.Strings(rv)
		return check("Keys", pat, wv, werr, rv, rerr)
	case 22:
		k, cnt, v := c12KeyFor(o, "LRem"), o.Intn(3)-1, c12Members[o.Intn(3)]
		wv, werr := w.LRem(k, cnt, v)
		rv, rerr := cl.LRem(ctx, k, int64(cnt), v).Result()
		return check("LRem", fmt.Sprint(k, cnt, v), wv, werr, rv, rerr)
	case 23:
		k := c12KeyFor(o, "PFCount")
		wv, werr := w.PFCount(k)
		rv, rerr := cl.PFCount(ctx, k).Result()
		return check("PFCount", k, wv, werr, rv, rerr)
	case 24:
		wv := w.Ping()
		rv, rerr := cl.Ping(ctx).Result()
		return check("Ping", "", wv, nil, rv, rerr)
	case 25:
		k, v := c12KeyFor(o, "Set"), c12Members[o.Intn(7)]
		werr := w.Set(k, v)
		rv, rerr := cl.Set(ctx, k, v, 0).Result()
		return check("Set", fmt.Sprint(k, v), nil, werr, rv, rerr)
	case 26:
		k, v := c12KeyFor(o, "Set"), c12Members[o.Intn(7)]
		wv, werr := w.SetNX(k, v)
		rv, rerr := cl.SetNX(ctx, k, v, 0).Result()
		return check("SetNX", fmt.Sprint(k, v), wv, werr, rv, rerr)
	case 27:
		k, sc, mb := c12KeyFor(o, "ZAddFloat"), float64(o.Intn(20))+0.5, c12Members[o.Intn(7)]
		wv, werr := w.ZAddFloat(k, sc, mb)
		rv, rerr := cl.ZAdd(ctx, k, &red.Z{Score: sc, Member: mb}).Result()
		return check("ZAddFloat", fmt.Sprint(k, sc, mb), wv, werr, rv, rerr)
	case 28:
		k, inc, mb := c12KeyFor(o, "ZIncrBy"), int64(o.Intn(7)-2), c12Members[o.Intn(7)]
		wv, werr := w.ZIncrBy(k, inc, mb)
		rv, rerr := cl.ZIncrBy(ctx, k, float64(inc), mb).Result()
		return check("ZIncrBy", fmt.Sprint(k, inc, mb), wv, werr, rv, rerr)
	case 29:
		k, a, z := c12KeyFor(o, "ZRemRangeByScore"), int64(o.Intn(4)), int64(o.Intn(12))
		wv, werr := w.ZRemRangeByScore(k, a, z)
		rv, rerr := cl.ZRemRangeByScore(ctx, k, fmt.Sprint(a), fmt.Sprint(z)).Result()
		return check("ZRemRangeByScore", fmt.Sprint(k, a, z), wv, werr, rv, rerr)
	case 30, 31:
		k, a, z := c12KeyFor(o, "ZRangeByScoreWithScores"), int64(o.Intn(4)), int64(o.Intn(12))
		rev := o.Intn(2) == 0
		page, size := o.Intn(2), o.Intn(3)
		limit := o.Intn(2) == 0
		var wv []Pair
		var werr error
		by := &red.ZRangeBy{Min: fmt.Sprint(a), Max: fmt.Sprint(z)}
		name := "ZRangeByScoreWithScores"
		switch {
		case !rev && !limit:
			wv, werr = w.ZRangeByScoreWithScores(k, a, z)
		case !rev:
			name = "ZRangeByScoreWithScoresAndLimit"
			wv, werr = w.ZRangeByScoreWithScoresAndLimit(k, a, z, page, size)
		case !limit:
			name = "ZRevRangeByScoreWithScores"
			wv, werr = w.ZRevRangeByScoreWithScores(k, a, z)
		default:
			name = "ZRevRangeByScoreWithScoresAndLimit"
			wv, werr = w.ZRevRangeByScoreWithScoresAndLimit(k, a, z, page, size)
		}
		if limit {
			if size <= 0 {
				// documented: a non-positive page size yields nothing
				return check(name, fmt.Sprint(k, a, z, page, size), c12Canon(wv), werr, c12Canon([]Pair(nil)), nil)
			}
			by.Offset, by.Count = int64(page*size), int64(size)
		}
		var rz []red.Z
		var rerr error
		if rev {
			rz, rerr = cl.ZRevRangeByScoreWithScores(ctx, k, by).Result()
		} else {
			rz, rerr = cl.ZRangeByScoreWithScores(ctx, k, by).Result()
		}
		var rp []Pair
		for _, e := range rz {
			rp = append(rp, Pair{Member: fmt.Sprint(e.Member), Score: int64(e.Score)})
		}
		return check(name, fmt.Sprint(k, a, z, page, size), c12Canon(wv), werr, c12Canon(rp), rerr)
	case 32:
		// script cache: load + evalsha on both sides
		// (scripts with a number, a value-or-nothing and a null reply)
		script := zsim.Pick(o, "return redis.call('incrby', KEYS[1], ARGV[1])", "return redis.call('get', KEYS[1])", "if ARGV[1] == '2' then return false end return 1")
		k := c12KeyFor(o, "Set")
		wsha, werr := w.ScriptLoad(script)
		rsha, rerr := cl.ScriptLoad(ctx, script).Result()
		if !check("ScriptLoad", "", wsha, werr, rsha, rerr) {
			return false
		}
		wv, werr := w.EvalSha(wsha, []string{k}, 2)
		rv, rerr := cl.EvalSha(ctx, rsha, []string{k}, 2).Result()
		return check("EvalSha", k, wv, werr, rv, rerr)
	case 34, 35:
		// the three blocking pops, on a node of their own (here: the server's own client); the list holds an element,
		// or stays empty for the whole blocking time
		k := c12KeyFor(o, "Lpop")
		switch o.Intn(3) {
		case 0:
			wv, werr := w.BLPop(a.Client, k)
			rv, rerr := cl.BLPop(ctx, 5*time.Second, k).Result()
			var rs any
			if len(rv) == 2 {
				rs = rv[1]
			} else {
				rs = ""
			}
			return check("BLPop", k, wv, werr, rs, rerr)
		case 1:
			wv, ok, werr := w.BLPopEx(a.Client, k)
			rv, rerr := cl.BLPop(ctx, 5*time.Second, k).Result()
			rs := ""
			if len(rv) == 2 {
				rs = rv[1]
			}
			return check("BLPopEx", k, fmt.Sprint(wv, ok), werr, fmt.Sprint(rs, len(rv) == 2), rerr)
		default:
			d := time.Duration(1+o.Intn(3)) * time.Second
			wv, werr := w.BLPopWithTimeout(a.Client, d, k)
			rv, rerr := cl.BLPop(ctx, d, k).Result()
			var rs any
			if len(rv) == 2 {
				rs = rv[1]
			} else {
				rs = ""
			}
			return check("BLPopWithTimeout", k, wv, werr, rs, rerr)
		}
	case 33:
		// pipeline: the same commands queued on both sides
		k1, k2 := c12KeyFor(o, "Set"), c12KeyFor(o, "Set")
		var wres, rres []string
		if o.Intn(3) == 0 {
			// one of the queued commands is refused by the server (wrong number of arguments): the others still
			// take effect and each command carries its own result
			queue := func(p red.Pipeliner) error {
				p.Incr(ctx, k1)
				p.Do(ctx, "SET", k2) // wrong arity
				p.Append(ctx, k2, "x")
				return nil
			}
			werr := w.Pipelined(queue)
			rc, rerr := cl.Pipelined(ctx, queue)
			for _, c := range rc {
				rres = append(rres, fmt.Sprint(c.Err()))
			}
			v1, _ := w.Get(k1)
			v2, _ := w.Get(k2)
			r1, _ := cl.Get(ctx, k1).Result()
			r2, _ := cl.Get(ctx, k2).Result()
			wres = append(append([]string{}, rres...), v1, v2)
			rres = append(rres, r1, r2)
			return check("Pipelined(with a refused command)", fmt.Sprint(k1, k2), wres, werr, rres, rerr)
		}
		werr := w.Pipelined(func(p Pipeliner) error {
			a := p.Incr(ctx, k1)
			b := p.Get(ctx, k2)
			_, err := p.Exec(ctx)
			wres = []string{fmt.Sprint(a.Val()), b.Val()}
			return err
		})
		_, rerr := cl.Pipelined(ctx, func(p red.Pipeliner) error {
			a := p.Incr(ctx, k1)
			b := p.Get(ctx, k2)
			_, err := p.Exec(ctx)
			rres = []string{fmt.Sprint(a.Val()), b.Val()}
			return err
		})
		return check("Pipelined", fmt.Sprint(k1, k2), wres, werr, rres, rerr)
	case 36:
		// the members returned are random: what is compared is how many there are (a negative count asks for
		// exactly that many, with repeats) and that each belongs to the set
		k, n := c12KeyFor(o, "SRandMember"), zsim.Pick(o, 1, 2, 0, -1, -3, -7, 5, 100)
		wv, werr := w.SRandMember(k, n)
		rv, rerr := cl.SRandMemberN(ctx, k, int64(n)).Result()
		all, _ := cl.SMembers(ctx, k).Result()
		in := map[string]bool{}
		for _, m := range all {
			in[m] = true
		}
		for _, m := range wv {
			if !in[m] {
				r.Failf("result-differs", "SRandMember(%s,%d) returned %q, which is not a member of the set %v", k, n, m, all)
				return false
			}
		}
		return check("SRandMember", fmt.Sprint(k, n), len(wv), werr, len(rv), rerr)
	}
	return true
}

// Connection-level failures trip the per-address breaker; redis.Nil and cancelled contexts never do.
func c12Breaker(r *zsim.Run) {
	o := r.Ops
	r.RandMode = 1 // any positive drop ratio rejects
	a := zredis.Start(r, "sim-brk:6379")
	defer a.Close()
	ZsimRegister(a.Addr, a.Client)
	w := New(a.Addr)
	r.NonTrivial()
	// 200 benign outcomes must never open the breaker
	cctx, cancel := context.WithCancel(context.Background())
	cancel()
	for i := 0; i < 200; i++ {
		if o.Intn(2) == 0 {
			_, err := w.Get("absent-key") // redis.Nil is swallowed to ""
			if err != nil {
				r.Failf("benign-outcome-rejected", "Get of an absent key returned %v after %d benign calls", err, i)
				return
			}
			if _, err := w.ZScore("absent-z", "m"); err != Nil {
				r.Failf("benign-outcome-rejected", "ZScore of an absent member returned %v after %d benign calls (want redis.Nil)", err, i)
				return
			}
		} else {
			_, err := w.GetCtx(cctx, "s1")
			if err == nil || strings.Contains(err.Error(), "断路器") {
				r.Failf("benign-outcome-rejected", "a call with a cancelled context returned %v after %d benign calls", err, i)
				return
			}
		}
	}
	// every wrapper method that answers a question about an absent key (redis.Nil, or a zero value): one of them,
	// drawn per run, is asked 40 times in a row - "not there" is an answer, never a failure
	var probes []reflect.Method
	wt := reflect.TypeOf(w)
	for i := 0; i < wt.NumMethod(); i++ {
		m := wt.Method(i)
		if strings.HasSuffix(m.Name, "Ctx") || strings.HasPrefix(m.Name, "B") || m.Type.IsVariadic() || m.Type.NumOut() != 2 ||
			m.Type.Out(1) != reflect.TypeOf((*error)(nil)).Elem() || m.Type.NumIn() < 2 || m.Type.NumIn() > 3 {
			continue
		}
		ok := true
		for j := 1; j < m.Type.NumIn(); j++ {
			if m.Type.In(j).Kind() != reflect.String {
				ok = false
			}
		}
		if ok {
			probes = append(probes, m)
		}
	}
	if len(probes) > 0 {
		zsim.Sleep(11 * time.Second) // the accepted outcomes above leave the breaker's window
		m := probes[o.Intn(len(probes))]
		args := []reflect.Value{reflect.ValueOf(w), reflect.ValueOf("absent-" + m.Name)}
		if m.Type.NumIn() == 3 {
			args = append(args, reflect.ValueOf("m"))
		}
		first := ""
		for i := 0; i < 40; i++ {
			n := len(a.Cmds)
			out := m.Func.Call(args)
			es := fmt.Sprint(out[1].Interface())
			if i == 0 {
				first = es
				if out[1].Interface() != nil && out[1].Interface().(error) != Nil {
					break // this method does not accept an absent key (wrong type of argument ...): not a probe
				}
				r.Probe("absent_key_probe_" + m.Name)
			}
			if es != first || len(a.Cmds) == n {
				r.Failf("benign-outcome-rejected", "%s on an absent key answered %q the first time; call %d returned %q (reached the server: %v)", m.Name, first, i+1, es, len(a.Cmds) != n)
				return
			}
		}
	}
	seen := len(a.Cmds)
	if _, err := w.Get("absent-key"); err != nil {
		r.Failf("benign-outcome-rejected", "after 200 redis.Nil / cancelled-context outcomes the breaker rejected a call: %v", err)
		return
	}
	if len(a.Cmds) == seen {
		r.Failf("benign-outcome-rejected", "the call after 200 benign outcomes did not reach the server")
		return
	}
	zsim.Sleep(11 * time.Second)
	// connection-level failures must open it
	kind := r.Fault.Intn(3) // 0 refused dials, 1 connection reset before delivery, 2 server stalls past the read timeout
	rejected := false
	if kind == 2 {
		// ten concurrent calls all time out (each one takes retries x read timeout of virtual time)
		a.Stall = func(cmd string, args []string) time.Duration { r.FaultFired("redis-stall"); return 10 * time.Second }
		done := 0
		for i := 0; i < 10; i++ {
			r.Go(fmt.Sprintf("stalled%d", i), func() {
				defer func() { done++ }()
				if _, err := w.Get("s1"); err == nil {
					r.Failf("outage-invisible", "Get succeeded although the server never answers")
				}
			})
		}
		if !r.WaitFor(5*time.Minute, time.Second, func() bool { return done == 10 }) {
			r.Failf("calls-hang", "calls against a stalled server never return: %v", r.Alive(false))
			return
		}
		if r.Failed() {
			return
		}
		a.Stall = nil
		for i := 0; i < 5; i++ {
			n := len(a.Cmds)
			_, err := w.Get("s1")
			r.Logf("probe after timeouts -> %v", err)
			if len(a.Cmds) == n && err != nil && strings.Contains(err.Error(), "断路器") {
				rejected = true
				r.Probe("breaker_opened_after_timeouts")
				break
			}
		}
		if !rejected {
			r.Failf("breaker-not-tripped", "ten calls that timed out against a stalled server did not open the per-address breaker")
		}
		return
	}
	if kind == 1 {
		a.DropRequest = 1 << 20
	} else {
		a.Cut()
	}
	r.FaultFired("redis-cut")
	for i := 0; i < 12; i++ {
		dials := a.Dials
		cmds := len(a.Cmds)
		_, err := w.Get("s1")
		r.Logf("get while down -> %v (dials %d)", err, a.Dials-dials)
		if err == nil {
			r.Failf("outage-invisible", "Get succeeded while the server is unreachable")
			return
		}
		if a.Dials == dials && len(a.Cmds) == cmds && strings.Contains(err.Error(), "断路器") {
			rejected = true
			r.Probe("breaker_opened_after_" + fmt.Sprint(i))
			break
		}
	}
	if !rejected {
		r.Failf("breaker-not-tripped", "12 consecutive connection failures did not open the per-address breaker (its random source rejects at any positive drop ratio)")
	}
}
