//go:build verif

package kv

import (
	"context"
	"fmt"
	"reflect"
	"sort"
	"strings"
	"testing"
	"time"

	"github.com/gotid/god/internal/zsim"
	"github.com/gotid/god/internal/zsim/zredis"
	"github.com/gotid/god/lib/logx"
	"github.com/gotid/god/lib/store/cache"
	"github.com/gotid/god/lib/store/redis"
	"github.com/gotid/god/lib/timex"
)

// C12 (KV half) - the sharded KV store behaves for every single-key command
// exactly like one Redis server holding all keys, and a multi-key delete
// removes every named key. Real: lib/store/kv, hash.ConsistentHash,
// lib/store/redis, go-redis, 1-3 miniredis shards + one reference server.

func init() { logx.Disable() }

func TestZsimC12KV(t *testing.T) {
	zsim.Main(t, zsim.Harness{
		Property: "C12", Name: "kvstore",
		Run:      c12kvRun,
		Horizon:  time.Hour,
		MaxSteps: 400000,
		Rule:     "the same random single-key command history (methods of kv.Store found by reflection, typed key pools, generated members/scores) is issued to a kv.Store over 1-3 weighted shards and to the Redis wrapper over one reference server; results compared after every command, the union of the shards' keyspaces with the reference keyspace at the end; multi-key Del included, also with one shard refusing its DEL (the other shards' keys must go all the same); non-trivial = keys ended up on at least two shards; distinct = distinct event-log fingerprint",
		Real:     []string{"lib/store/kv kvStore (all Store methods by reflection)", "lib/hash.ConsistentHash", "lib/store/redis wrapper", "go-redis", "miniredis (1-3 shards + 1 reference)"},
		Stub:     []string{"network (simulated transport)", "argument generator"},
	})
}

type c12kvMethod struct {
	name   string
	kv     reflect.Method
	ref    reflect.Method
	kvCtx  *reflect.Method // the context forms, if both sides have one
	refCtx *reflect.Method
}

var c12kvMethods []c12kvMethod

var c12kvExclude = map[string]bool{"SPop": true, "SRandMember": true, "Eval": true, "EvalSha": true, "ScriptLoad": true, "HScan": true, "SScan": true, "Pipelined": true,
	"PFAdd": true, "PFCount": true, "PFMerge": true}

func init() {
	st := reflect.TypeOf(kvStore{})
	rt := reflect.TypeOf(&redis.Redis{})
	for i := 0; i < st.NumMethod(); i++ {
		m := st.Method(i)
		if strings.HasSuffix(m.Name, "Ctx") || c12kvExclude[m.Name] {
			continue
		}
		ref, ok := rt.MethodByName(m.Name)
		if !ok || m.Type.NumIn() != ref.Type.NumIn() || m.Type.IsVariadic() != ref.Type.IsVariadic() {
			continue
		}
		same := true
		for j := 1; j < m.Type.NumIn(); j++ {
			if m.Type.In(j) != ref.Type.In(j) {
				same = false
			}
		}
		if same && m.Type.NumIn() >= 2 && m.Type.In(1).Kind() == reflect.String {
			km := c12kvMethod{name: m.Name, kv: m, ref: ref}
			if kc, ok := st.MethodByName(m.Name + "Ctx"); ok {
				if rc, ok := rt.MethodByName(m.Name + "Ctx"); ok && kc.Type.NumIn() == rc.Type.NumIn() {
					km.kvCtx, km.refCtx = &kc, &rc
				}
			}
			c12kvMethods = append(c12kvMethods, km)
		}
	}
}

var c12kvMembers = []string{"a", "b", "c", "1", "2", "10"}

func c12kvKey(o *zsim.Tape, method string) string {
	kind := "s"
	switch {
	case strings.HasPrefix(method, "H"):
		kind = "h"
	case strings.HasPrefix(method, "Z"):
		kind = "z"
	case strings.HasPrefix(method, "L"), strings.HasPrefix(method, "RP"):
		kind = "l"
	case strings.Contains(method, "Bit"):
		kind = "b"
	case strings.HasPrefix(method, "S") && !strings.HasPrefix(method, "Set"):
		kind = "set"
	}
	return fmt.Sprintf("%s%d", kind, o.Intn(8))
}

func c12kvArgs(o *zsim.Tape, m c12kvMethod) ([]reflect.Value, bool) {
	t := m.kv.Type
	var args []reflect.Value
	for j := 1; j < t.NumIn(); j++ {
		pt := t.In(j)
		if t.IsVariadic() && j == t.NumIn()-1 {
			for k := 0; k < 1+o.Intn(3); k++ {
				var v reflect.Value
				if m.name == "Del" {
					v = reflect.ValueOf(c12kvKey(o, "Set"))
				} else {
					v = reflect.ValueOf(c12kvMembers[o.Intn(len(c12kvMembers))])
				}
				if pt.Elem().Kind() == reflect.Interface {
					nv := reflect.New(pt.Elem()).Elem()
					nv.Set(v)
					v = nv
				} else if pt.Elem().Kind() != reflect.String {
					return nil, false
				}
				args = append(args, v)
			}
			continue
		}
		switch pt.Kind() {
		case reflect.String:
			if j == 1 {
				args = append(args, reflect.ValueOf(c12kvKey(o, m.name)))
			} else {
				args = append(args, reflect.ValueOf(c12kvMembers[o.Intn(len(c12kvMembers))]))
			}
		case reflect.Int, reflect.Int64:
			v := reflect.New(pt).Elem()
			v.SetInt(int64(zsim.Pick(o, 1, 0, -1, 2, 3, 5, 10, 100)))
			args = append(args, v)
		case reflect.Float64:
			args = append(args, reflect.ValueOf(zsim.Pick(o, 1.0, 0.5, 2.5)))
		case reflect.Interface:
			v := reflect.New(pt).Elem()
			v.Set(reflect.ValueOf(c12kvMembers[o.Intn(len(c12kvMembers))]))
			args = append(args, v)
		case reflect.Map:
			if pt.Key().Kind() != reflect.String || pt.Elem().Kind() != reflect.String {
				return nil, false
			}
			mm := reflect.MakeMap(pt)
			mm.SetMapIndex(reflect.ValueOf(c12kvMembers[o.Intn(3)]), reflect.ValueOf(c12kvMembers[o.Intn(len(c12kvMembers))]))
			args = append(args, mm)
		default:
			return nil, false
		}
	}
	return args, true
}

func c12kvRender(outs []reflect.Value, sortLists bool) string {
	var parts []string
	for _, o := range outs {
		v := o.Interface()
		if l, ok := v.([]string); ok && sortLists {
			l = append([]string(nil), l...)
			sort.Strings(l)
			v = l
		}
		if e, ok := v.(error); ok && e != nil {
			v = e.Error()
		}
		parts = append(parts, fmt.Sprintf("%v", v))
	}
	return strings.Join(parts, " | ")
}

func c12kvRun(r *zsim.Run) {
	timex.ZsimReset()
	redis.ZsimResetClients()
	r.RandMode = 2 // the per-address breakers never reject: the refused DELs of the injected fault are the only failures
	o := r.Ops
	nshards := 1 + o.Intn(3)
	var shards []*zredis.Server
	var conf Config
	for i := 0; i < nshards; i++ {
		addr := fmt.Sprintf("sim-shard-%d:6379", i)
		s := zredis.Start(r, addr)
		s.M.Seed(7)
		redis.ZsimRegister(addr, s.Client)
		shards = append(shards, s)
		conf = append(conf, cache.NodeConfig{Config: redis.Config{Host: addr, Type: redis.NodeType}, Weight: zsim.Pick(o, 100, 1, 30, 300)})
		defer s.Close()
	}
	ref := zredis.Start(r, "sim-ref:6379")
	ref.M.Seed(7)
	defer ref.Close()
	redis.ZsimRegister(ref.Addr, ref.Client)
	store := New(conf)
	single := redis.New(ref.Addr)
	r.Logf("kv shards=%d", nshards)
	n := 8 + o.Intn(50)
	for i := 0; i < n && !r.Failed(); i++ {
		if o.Intn(15) == 14 {
			d := time.Duration(1+o.Intn(5)) * time.Second
			zsim.Sleep(d)
			for _, s := range shards {
				s.M.FastForward(d)
			}
			ref.M.FastForward(d)
			continue
		}
		if len(shards) >= 2 && r.Fault.Intn(12) == 11 {
			// fault: one shard answers DEL with an error during a multi-key Del; the keys of the other shards are
			// deleted all the same, whatever their position in the argument list, and the call reports the error
			bad := shards[r.Fault.Intn(len(shards))]
			var keys []string
			for k := 0; k < 2+o.Intn(4); k++ {
				keys = append(keys, c12kvKey(o, "Set"))
			}
			onBad, onGood := 0, 0
			for _, k := range keys {
				for _, s := range shards {
					if s.M.Exists(k) {
						if s == bad {
							onBad++
						} else {
							onGood++
						}
					}
				}
			}
			bad.FailReply = func(cmd string, args []string) string {
				if cmd == "DEL" {
					r.FaultFired("redis-error-reply")
					return "ERR injected"
				}
				return ""
			}
			_, err := store.Del(keys...)
			bad.FailReply = nil
			r.Logf("Del(%s) with shard %s failing -> %v (named keys on it: %d, on healthy shards: %d)", strings.Join(keys, ","), bad.Addr, err, onBad, onGood)
			if onBad > 0 && err == nil {
				r.Failf("kv-delete-error-lost", "Del(%s): shard %s refused its DEL but the call returned no error", strings.Join(keys, ","), bad.Addr)
				return
			}
			for _, k := range keys {
				for _, s := range shards {
					if s != bad && s.M.Exists(k) {
						r.Failf("kv-multi-delete-incomplete", "Del(%s) while shard %s failed: key %s lives on the healthy shard %s and still exists", strings.Join(keys, ","), bad.Addr, k, s.Addr)
						return
					}
				}
				bad.M.Del(k) // repair by hand so that the comparison with the reference can go on
			}
			single.Del(keys...)
			if onGood > 0 && onBad > 0 {
				r.NonTrivial()
				r.Probe("multi_delete_with_failing_shard")
			}
			continue
		}
		m := c12kvMethods[o.Intn(len(c12kvMethods))]
		args, ok := c12kvArgs(o, m)
		if !ok {
			r.Probe("ungeneratable_" + m.name)
			continue
		}
		var ko, ro []reflect.Value
		if m.kvCtx != nil && o.Intn(8) == 0 {
			// the context form with a context that is already done: no effect on any server, the context's error back
			cctx, cancel := context.WithCancel(context.Background())
			cancel()
			cargs := append([]reflect.Value{reflect.ValueOf(cctx)}, args...)
			ko = m.kvCtx.Func.Call(append([]reflect.Value{reflect.ValueOf(store)}, cargs...))
			ro = m.refCtx.Func.Call(append([]reflect.Value{reflect.ValueOf(single)}, cargs...))
			r.Probe("kv_ctx_form_with_done_context")
		} else {
			ko = m.kv.Func.Call(append([]reflect.Value{reflect.ValueOf(store)}, args...))
			ro = m.ref.Func.Call(append([]reflect.Value{reflect.ValueOf(single)}, args...))
		}
		unordered := strings.HasPrefix(m.name, "S") || strings.HasPrefix(m.name, "HK") || strings.HasPrefix(m.name, "HV")
		ks, rs := c12kvRender(ko, unordered), c12kvRender(ro, unordered)
		var as []string
		for _, a := range args {
			as = append(as, fmt.Sprint(a.Interface()))
		}
		r.Logf("%s(%s): kv [%s] single [%s]", m.name, strings.Join(as, ","), ks, rs)
		r.Probe("kv_" + m.name)
		if ks != rs {
			r.Failf("kv-result-differs", "%s(%s): the sharded store returned [%s], one server holding all keys returns [%s]", m.name, strings.Join(as, ","), ks, rs)
			return
		}
		if m.name == "Del" {
			for _, a := range args {
				for _, s := range shards {
					if s.M.Exists(fmt.Sprint(a.Interface())) {
						r.Failf("kv-multi-delete-incomplete", "after Del(%s) key %v still exists on shard %s", strings.Join(as, ","), a.Interface(), s.Addr)
						return
					}
				}
			}
		}
	}
	if r.Failed() {
		return
	}
	// the union of the shards equals the reference keyspace
	used := 0
	union := map[string]string{}
	for _, s := range shards {
		ks := s.M.Keys()
		if len(ks) > 0 {
			used++
		}
		for _, k := range ks {
			if _, dup := union[k]; dup {
				r.Failf("kv-key-on-two-shards", "key %s exists on two shards", k)
				return
			}
			union[k] = s.M.Type(k) + fmt.Sprint(s.M.TTL(k))
		}
	}
	if used >= 2 {
		r.NonTrivial()
	}
	refKeys := ref.M.Keys()
	if len(refKeys) != len(union) {
		r.Failf("kv-keyspace-differs", "the shards hold %d keys, the single server %d", len(union), len(refKeys))
		return
	}
	for _, k := range refKeys {
		if union[k] != ref.M.Type(k)+fmt.Sprint(ref.M.TTL(k)) {
			r.Failf("kv-keyspace-differs", "key %s: shards have %q, single server %q", k, union[k], ref.M.Type(k)+fmt.Sprint(ref.M.TTL(k)))
			return
		}
	}
}
