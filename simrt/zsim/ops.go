package zsim

import (
	"fmt"
	"math/rand"
	"sort"
	"strconv"
)

// Helpers that rewritten library code calls.

// Recv is `<-ch` with scheduling points around it.
func Recv[T any](ch <-chan T) T {
	r, t := Current()
	if t == nil {
		return <-ch
	}
	r.park(t, "recv")
	select {
	case v := <-ch:
		return v
	default:
	}
	r.mu.Lock()
	t.site = "recv(blocked)"
	r.mu.Unlock()
	v := <-ch
	r.park(t, "recvd")
	return v
}

// Recv2 is `v, ok := <-ch` with scheduling points around it.
func Recv2[T any](ch <-chan T) (T, bool) {
	r, t := Current()
	if t == nil {
		v, ok := <-ch
		return v, ok
	}
	r.park(t, "recv")
	select {
	case v, ok := <-ch:
		return v, ok
	default:
	}
	r.mu.Lock()
	t.site = "recv(blocked)"
	r.mu.Unlock()
	v, ok := <-ch
	r.park(t, "recvd")
	return v, ok
}

// Close is close(ch) preceded by a scheduling point.
func Close[T any](ch chan<- T) {
	r, t := Current()
	if t != nil {
		r.park(t, "close")
	}
	close(ch)
}

// ZeroOf declares variables of a channel's element type without naming it.
func ZeroOf[T any](ch <-chan T) (v T, ok bool) { return }

// SelBegin starts a rewritten select statement with n communication cases.
// With an active run it yields and returns the order in which the cases are
// to be probed; in pass-through mode it returns nil (the original select
// decides).
func SelBegin(site string, n int) []int {
	r, t := Current()
	if t == nil {
		return nil
	}
	r.park(t, site)
	p := make([]int, n)
	for i := range p {
		p[i] = i
	}
	// Fisher-Yates from the schedule tape; value 0 keeps source order
	for i := 0; i < n-1; i++ {
		j := i + r.Sched.Intn(n-i)
		p[i], p[j] = p[j], p[i]
	}
	return p
}

// SelBlock marks that the task is about to block in the original select.
func SelBlock(site string) {
	r, t := Current()
	if t == nil {
		return
	}
	r.mu.Lock()
	t.site = site + "(blocked)"
	r.mu.Unlock()
}

// NewSource replaces rand.NewSource in instrumented code: during a run the
// source is seeded / steered by the run.
func NewSource(seed int64) rand.Source {
	r := cur.Load()
	if r == nil {
		return rand.NewSource(seed)
	}
	r.mu.Lock()
	r.randCtr++
	c := r.randCtr
	mode := r.RandMode
	r.mu.Unlock()
	switch mode {
	case 1:
		return constSource(0)
	case 2:
		return constSource(1<<63 - 1<<10) // largest value whose Float64 is still below 1
	}
	return rand.NewSource(r.Seed*1000003 + c)
}

type constSource int64

func (c constSource) Int63() int64   { return int64(c) }
func (c constSource) Uint64() uint64 { return uint64(c) << 1 }
func (c constSource) Seed(int64)     {}

// Itoa is a small convenience for site strings in harnesses.
func Itoa(i int) string { return strconv.Itoa(i) }

// KeysByValue returns the keys of m ordered by the printed form of their values during a simulated run (for maps
// whose keys cannot be ordered but whose values are plain data), in map order otherwise.
func KeysByValue[V any](m map[any]V) []any {
	keys := make([]any, 0, len(m))
	for k := range m {
		keys = append(keys, k)
	}
	if cur.Load() != nil {
		pr := make(map[any]string, len(m))
		for k, v := range m {
			pr[k] = fmt.Sprintf("%v", v)
		}
		sort.SliceStable(keys, func(i, j int) bool { return pr[keys[i]] < pr[keys[j]] })
	}
	return keys
}

type orderedKey interface {
	~int | ~int8 | ~int16 | ~int32 | ~int64 | ~uint | ~uint8 | ~uint16 | ~uint32 | ~uint64 | ~uintptr | ~string
}

// SortedKeys returns the keys of m: in sorted order during a simulated run (so that one seed is one
// execution), in map order otherwise.
func SortedKeys[K orderedKey, V any](m map[K]V) []K {
	keys := make([]K, 0, len(m))
	for k := range m {
		keys = append(keys, k)
	}
	if cur.Load() != nil {
		sort.Slice(keys, func(i, j int) bool { return keys[i] < keys[j] })
	}
	return keys
}
