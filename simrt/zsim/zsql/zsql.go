// Package zsql is a scriptable fake database/sql driver for the simulation
// harnesses: it records every driver-level call and fails where told to.
package zsql

import (
	"context"
	"database/sql"
	"database/sql/driver"
	"errors"
	"fmt"
	"io"
)

// DB is one fake database (one connector).
type DB struct {
	// Calls is the driver-level trace: "open", "begin", "exec:<q>", "query:<q>", "commit", "rollback", "close".
	Calls []string
	// Fail maps a call name (as it appears in Calls, or "exec#<n>" / "query#<n>" for the n-th exec/query, 0-based) to the error it returns.
	Fail map[string]error
	// Rows answers queries: columns and rows for a query string.
	Rows func(q string, args []driver.NamedValue) ([]string, [][]driver.Value, error)
	// RowFail: fetching row k (0-based) of a result set fails with this error (the query itself is accepted).
	RowFail map[int]error
	// OnCall is invoked for every recorded call (optional).
	OnCall func(name string)

	nexec, nquery int
}

// New returns a fake DB and the *sql.DB using it.
func New() (*DB, *sql.DB) {
	d := &DB{Fail: map[string]error{}}
	return d, sql.OpenDB(connector{d})
}

// Count returns how often a call name occurs in the trace.
func (d *DB) Count(name string) int {
	n := 0
	for _, c := range d.Calls {
		if c == name {
			n++
		}
	}
	return n
}

func (d *DB) rec(name string, alt string) error {
	d.Calls = append(d.Calls, name)
	if d.OnCall != nil {
		d.OnCall(name)
	}
	if e, ok := d.Fail[name]; ok {
		return e
	}
	if alt != "" {
		if e, ok := d.Fail[alt]; ok {
			return e
		}
	}
	return nil
}

type connector struct{ d *DB }

func (c connector) Connect(context.Context) (driver.Conn, error) {
	if err := c.d.rec("open", ""); err != nil {
		return nil, err
	}
	return &conn{c.d}, nil
}
func (c connector) Driver() driver.Driver { return drv{} }

type drv struct{}

func (drv) Open(string) (driver.Conn, error) { return nil, errors.New("zsql: use OpenDB") }

type conn struct{ d *DB }

func (c *conn) Prepare(q string) (driver.Stmt, error) { return &stmt{c.d, q}, nil }
func (c *conn) Close() error                          { c.d.rec("close", ""); return nil }
func (c *conn) Begin() (driver.Tx, error)             { return c.BeginTx(context.Background(), driver.TxOptions{}) }
func (c *conn) BeginTx(context.Context, driver.TxOptions) (driver.Tx, error) {
	if err := c.d.rec("begin", ""); err != nil {
		return nil, err
	}
	return &tx{c.d}, nil
}
func (c *conn) ExecContext(_ context.Context, q string, args []driver.NamedValue) (driver.Result, error) {
	alt := fmt.Sprintf("exec#%d", c.d.nexec)
	c.d.nexec++
	if err := c.d.rec("exec:"+q, alt); err != nil {
		return nil, err
	}
	return driver.RowsAffected(1), nil
}
func (c *conn) QueryContext(_ context.Context, q string, args []driver.NamedValue) (driver.Rows, error) {
	alt := fmt.Sprintf("query#%d", c.d.nquery)
	c.d.nquery++
	if err := c.d.rec("query:"+q, alt); err != nil {
		return nil, err
	}
	if c.d.Rows == nil {
		return &rows{}, nil
	}
	cols, data, err := c.d.Rows(q, args)
	if err != nil {
		return nil, err
	}
	return &rows{cols: cols, data: data, fail: c.d.RowFail}, nil
}

type tx struct{ d *DB }

func (t *tx) Commit() error   { return t.d.rec("commit", "") }
func (t *tx) Rollback() error { return t.d.rec("rollback", "") }

type stmt struct {
	d *DB
	q string
}

func (s *stmt) Close() error  { return nil }
func (s *stmt) NumInput() int { return -1 }
func (s *stmt) Exec(args []driver.Value) (driver.Result, error) {
	return (&conn{s.d}).ExecContext(context.Background(), s.q, nil)
}
func (s *stmt) Query(args []driver.Value) (driver.Rows, error) {
	return (&conn{s.d}).QueryContext(context.Background(), s.q, nil)
}

type rows struct {
	cols []string
	data [][]driver.Value
	fail map[int]error
	i    int
}

func (r *rows) Columns() []string { return r.cols }
func (r *rows) Close() error      { return nil }
func (r *rows) Next(dest []driver.Value) error {
	if e, ok := r.fail[r.i]; ok {
		return e
	}
	if r.i >= len(r.data) {
		return io.EOF
	}
	copy(dest, r.data[r.i])
	r.i++
	return nil
}
