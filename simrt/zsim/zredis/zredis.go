// Package zredis runs a Redis server (miniredis, real command and Lua
// engine) entirely inside a simulated run, behind a transport the harness
// owns: go-redis dials through a net.Pipe whose other end is served by
// miniredis, so latency, cuts, refused dials, lost replies, stalls and error
// replies are injected deterministically on the simulated clock.
package zredis

import (
	"context"
	"errors"
	"io"
	"net"
	"strings"
	"time"

	"github.com/alicebob/miniredis/v2"
	"github.com/alicebob/miniredis/v2/server"
	red "github.com/go-redis/redis/v8"
	"github.com/gotid/god/internal/zsim"
)

// Cmd is one command seen by the server.
type Cmd struct {
	Name   string
	Args   []string
	At     time.Duration
	Failed bool // answered with an injected error reply
}

// Server is one simulated Redis node.
type Server struct {
	R      *zsim.Run
	M      *miniredis.Miniredis
	Addr   string
	Client *red.Client

	Down    bool          // dials are refused
	Latency time.Duration // added to every client write (virtual)
	// FailReply, if set, may answer a command with an error reply instead of executing it.
	FailReply func(cmd string, args []string) string
	// Stall, if set, delays the server's handling of a command (virtual time), e.g. past the client's read timeout.
	Stall func(cmd string, args []string) time.Duration
	// DropReply: the next n replies are executed by the server but lost on the way back (connection reset).
	DropReply int
	// DropRequest: the next n requests are lost before they reach the server (connection reset).
	DropRequest int

	Cmds  []Cmd
	conns []*conn
	Dials int
}

// Start creates the node inside the current bubble and a go-redis client for it
// built with the same options lib/store/redis uses (plus the simulated dialer).
func Start(r *zsim.Run, addr string) *Server {
	s := &Server{R: r, Addr: addr}
	s.M = miniredis.NewMiniRedis()
	if err := s.M.StartAddr("127.0.0.1:0"); err != nil {
		panic(err)
	}
	s.M.Server().Close() // drop the TCP listener: connections arrive through ServeConn only
	s.M.SetTime(time.Now())
	s.M.Server().SetPreHook(func(p *server.Peer, cmd string, args ...string) bool {
		cmd = strings.ToUpper(cmd)
		c := Cmd{Name: cmd, Args: append([]string(nil), args...), At: r.Now()}
		if s.Stall != nil {
			if d := s.Stall(cmd, args); d > 0 {
				time.Sleep(d)
			}
		}
		if s.FailReply != nil {
			if msg := s.FailReply(cmd, args); msg != "" {
				c.Failed = true
				s.Cmds = append(s.Cmds, c)
				p.WriteError(msg)
				return true
			}
		}
		s.Cmds = append(s.Cmds, c)
		return false
	})
	s.Client = red.NewClient(&red.Options{
		Addr:         addr,
		DB:           0,
		MaxRetries:   3,
		MinIdleConns: 0, // the production value (8) only pre-dials; dials are on demand here
		// go-redis draws its retry back-off jitter from a package-private source whose state
		// survives from run to run; min == max pins the back-off (8ms) so that a run does not
		// depend on what earlier runs of the same process consumed
		// the default pool size is 10 x GOMAXPROCS, and after that many failed dials the pool starts a
		// goroutine of its own (tryDial) that re-dials once a second: that goroutine is outside the
		// scheduler's control (it races with the running task until it reaches the dialer), so the pool
		// is made larger than the number of dials a run can fail
		PoolSize:        4096,
		MinRetryBackoff: 8 * time.Millisecond,
		MaxRetryBackoff: 8 * time.Millisecond,
		Dialer:          s.dial,
	})
	return s
}

// The transport re-enters the scheduler at every dial, write and completed read: go-redis blocks in code the
// instrumenter does not see (retry back-off, waiting for a reply or a read deadline), and several tasks whose waits
// end at the same virtual instant would otherwise run on, unscheduled and in parallel, until their next
// instrumented operation.
func (s *Server) dial(ctx context.Context, network, addr string) (net.Conn, error) {
	zsim.Woke("redis.dial")
	s.Dials++
	if s.Down {
		s.R.FaultFired("redis-dial-refused")
		return nil, errors.New("dial tcp " + addr + ": connect: connection refused (simulated)")
	}
	c, srv := net.Pipe()
	s.M.Server().ServeConn(srv)
	cc := &conn{Conn: c, s: s}
	s.conns = append(s.conns, cc)
	return cc, nil
}

// Cut closes every open connection and refuses new ones until Heal.
func (s *Server) Cut() {
	s.Down = true
	for _, c := range s.conns {
		c.Conn.Close()
	}
	s.conns = nil
}

// Heal lets dials succeed again.
func (s *Server) Heal() { s.Down = false }

// Advance moves the simulated clock and the server's notion of time together.
func (s *Server) Advance(d time.Duration) {
	zsim.Sleep(d)
	s.M.FastForward(d)
	s.M.SetTime(time.Now())
}

// Count returns how many commands with this name (and first argument, if given) reached the server.
func (s *Server) Count(name string, firstArg ...string) int {
	n := 0
	for _, c := range s.Cmds {
		if c.Name != name {
			continue
		}
		if len(firstArg) > 0 && (len(c.Args) == 0 || c.Args[0] != firstArg[0]) {
			continue
		}
		n++
	}
	return n
}

// Close stops the client's background goroutines.
func (s *Server) Close() {
	s.Client.Close()
	for _, c := range s.conns {
		c.Conn.Close()
	}
}

type conn struct {
	net.Conn
	s *Server
}

// netErr makes the pipe's errors look like those of a TCP connection (a *net.OpError, which go-redis retries),
// not like io.ErrClosedPipe (which it would treat as a non-retryable application error).
func netErr(op string, err error) error {
	if err == nil || err == io.EOF {
		return err
	}
	if errors.Is(err, io.ErrClosedPipe) {
		return &net.OpError{Op: op, Net: "tcp", Err: errors.New("connection reset by peer (simulated)")}
	}
	return err
}

func (c *conn) Write(p []byte) (int, error) {
	zsim.Woke("redis.write")
	if c.s.Latency > 0 {
		zsim.Sleep(c.s.Latency)
	}
	if c.s.DropRequest > 0 {
		c.s.DropRequest--
		c.s.R.FaultFired("redis-reset-before-delivery")
		c.Conn.Close()
		return 0, &net.OpError{Op: "write", Net: "tcp", Err: errors.New("connection reset by peer (simulated)")}
	}
	n, err := c.Conn.Write(p)
	zsim.Woke("redis.written")
	return n, netErr("write", err)
}

func (c *conn) Read(p []byte) (int, error) {
	n, err := c.Conn.Read(p)
	zsim.Woke("redis.read")
	if err == nil && c.s.DropReply > 0 {
		// the server executed the command; its reply is lost
		c.s.DropReply--
		c.s.R.FaultFired("redis-reply-lost")
		c.Conn.Close()
		return 0, io.ErrUnexpectedEOF
	}
	return n, netErr("read", err)
}

func (c *conn) SetDeadline(t time.Time) error     { return netErr("set", c.Conn.SetDeadline(t)) }
func (c *conn) SetReadDeadline(t time.Time) error { return netErr("read", c.Conn.SetReadDeadline(t)) }
func (c *conn) SetWriteDeadline(t time.Time) error {
	return netErr("write", c.Conn.SetWriteDeadline(t))
}
