// Package simatomic is a drop-in replacement for sync/atomic used by
// instrumented code: every operation is a scheduling point of the
// simulator (and delegates to sync/atomic).
package simatomic

import (
	"sync/atomic"
	"unsafe"

	"github.com/gotid/god/internal/zsim"
)

func y() { zsim.Yield("atomic") }

func AddInt32(addr *int32, delta int32) int32 { y(); return atomic.AddInt32(addr, delta) }
func LoadInt32(addr *int32) int32             { y(); return atomic.LoadInt32(addr) }
func StoreInt32(addr *int32, v int32)         { y(); atomic.StoreInt32(addr, v) }
func SwapInt32(addr *int32, v int32) int32    { y(); return atomic.SwapInt32(addr, v) }
func CompareAndSwapInt32(addr *int32, old, new int32) bool {
	y()
	return atomic.CompareAndSwapInt32(addr, old, new)
}

type Int32 struct{ v atomic.Int32 }

func (x *Int32) Load() int32                        { y(); return x.v.Load() }
func (x *Int32) Store(v int32)                      { y(); x.v.Store(v) }
func (x *Int32) Swap(v int32) int32                 { y(); return x.v.Swap(v) }
func (x *Int32) Add(d int32) int32                  { y(); return x.v.Add(d) }
func (x *Int32) CompareAndSwap(old, new int32) bool { y(); return x.v.CompareAndSwap(old, new) }

func AddInt64(addr *int64, delta int64) int64 { y(); return atomic.AddInt64(addr, delta) }
func LoadInt64(addr *int64) int64             { y(); return atomic.LoadInt64(addr) }
func StoreInt64(addr *int64, v int64)         { y(); atomic.StoreInt64(addr, v) }
func SwapInt64(addr *int64, v int64) int64    { y(); return atomic.SwapInt64(addr, v) }
func CompareAndSwapInt64(addr *int64, old, new int64) bool {
	y()
	return atomic.CompareAndSwapInt64(addr, old, new)
}

type Int64 struct{ v atomic.Int64 }

func (x *Int64) Load() int64                        { y(); return x.v.Load() }
func (x *Int64) Store(v int64)                      { y(); x.v.Store(v) }
func (x *Int64) Swap(v int64) int64                 { y(); return x.v.Swap(v) }
func (x *Int64) Add(d int64) int64                  { y(); return x.v.Add(d) }
func (x *Int64) CompareAndSwap(old, new int64) bool { y(); return x.v.CompareAndSwap(old, new) }

func AddUint32(addr *uint32, delta uint32) uint32 { y(); return atomic.AddUint32(addr, delta) }
func LoadUint32(addr *uint32) uint32              { y(); return atomic.LoadUint32(addr) }
func StoreUint32(addr *uint32, v uint32)          { y(); atomic.StoreUint32(addr, v) }
func SwapUint32(addr *uint32, v uint32) uint32    { y(); return atomic.SwapUint32(addr, v) }
func CompareAndSwapUint32(addr *uint32, old, new uint32) bool {
	y()
	return atomic.CompareAndSwapUint32(addr, old, new)
}

type Uint32 struct{ v atomic.Uint32 }

func (x *Uint32) Load() uint32                        { y(); return x.v.Load() }
func (x *Uint32) Store(v uint32)                      { y(); x.v.Store(v) }
func (x *Uint32) Swap(v uint32) uint32                { y(); return x.v.Swap(v) }
func (x *Uint32) Add(d uint32) uint32                 { y(); return x.v.Add(d) }
func (x *Uint32) CompareAndSwap(old, new uint32) bool { y(); return x.v.CompareAndSwap(old, new) }

func AddUint64(addr *uint64, delta uint64) uint64 { y(); return atomic.AddUint64(addr, delta) }
func LoadUint64(addr *uint64) uint64              { y(); return atomic.LoadUint64(addr) }
func StoreUint64(addr *uint64, v uint64)          { y(); atomic.StoreUint64(addr, v) }
func SwapUint64(addr *uint64, v uint64) uint64    { y(); return atomic.SwapUint64(addr, v) }
func CompareAndSwapUint64(addr *uint64, old, new uint64) bool {
	y()
	return atomic.CompareAndSwapUint64(addr, old, new)
}

type Uint64 struct{ v atomic.Uint64 }

func (x *Uint64) Load() uint64                        { y(); return x.v.Load() }
func (x *Uint64) Store(v uint64)                      { y(); x.v.Store(v) }
func (x *Uint64) Swap(v uint64) uint64                { y(); return x.v.Swap(v) }
func (x *Uint64) Add(d uint64) uint64                 { y(); return x.v.Add(d) }
func (x *Uint64) CompareAndSwap(old, new uint64) bool { y(); return x.v.CompareAndSwap(old, new) }

func AddUintptr(addr *uintptr, delta uintptr) uintptr { y(); return atomic.AddUintptr(addr, delta) }
func LoadUintptr(addr *uintptr) uintptr               { y(); return atomic.LoadUintptr(addr) }
func StoreUintptr(addr *uintptr, v uintptr)           { y(); atomic.StoreUintptr(addr, v) }
func SwapUintptr(addr *uintptr, v uintptr) uintptr    { y(); return atomic.SwapUintptr(addr, v) }
func CompareAndSwapUintptr(addr *uintptr, old, new uintptr) bool {
	y()
	return atomic.CompareAndSwapUintptr(addr, old, new)
}

type Uintptr struct{ v atomic.Uintptr }

func (x *Uintptr) Load() uintptr                        { y(); return x.v.Load() }
func (x *Uintptr) Store(v uintptr)                      { y(); x.v.Store(v) }
func (x *Uintptr) Swap(v uintptr) uintptr               { y(); return x.v.Swap(v) }
func (x *Uintptr) Add(d uintptr) uintptr                { y(); return x.v.Add(d) }
func (x *Uintptr) CompareAndSwap(old, new uintptr) bool { y(); return x.v.CompareAndSwap(old, new) }

func LoadPointer(addr *unsafe.Pointer) unsafe.Pointer     { y(); return atomic.LoadPointer(addr) }
func StorePointer(addr *unsafe.Pointer, v unsafe.Pointer) { y(); atomic.StorePointer(addr, v) }
func SwapPointer(addr *unsafe.Pointer, v unsafe.Pointer) unsafe.Pointer {
	y()
	return atomic.SwapPointer(addr, v)
}
func CompareAndSwapPointer(addr *unsafe.Pointer, old, new unsafe.Pointer) bool {
	y()
	return atomic.CompareAndSwapPointer(addr, old, new)
}

type Bool struct{ v atomic.Bool }

func (x *Bool) Load() bool                        { y(); return x.v.Load() }
func (x *Bool) Store(v bool)                      { y(); x.v.Store(v) }
func (x *Bool) Swap(v bool) bool                  { y(); return x.v.Swap(v) }
func (x *Bool) CompareAndSwap(old, new bool) bool { y(); return x.v.CompareAndSwap(old, new) }

type Value struct{ v atomic.Value }

func (x *Value) Load() any                        { y(); return x.v.Load() }
func (x *Value) Store(v any)                      { y(); x.v.Store(v) }
func (x *Value) Swap(v any) any                   { y(); return x.v.Swap(v) }
func (x *Value) CompareAndSwap(old, new any) bool { y(); return x.v.CompareAndSwap(old, new) }

type Pointer[T any] struct{ v atomic.Pointer[T] }

func (x *Pointer[T]) Load() *T                        { y(); return x.v.Load() }
func (x *Pointer[T]) Store(v *T)                      { y(); x.v.Store(v) }
func (x *Pointer[T]) Swap(v *T) *T                    { y(); return x.v.Swap(v) }
func (x *Pointer[T]) CompareAndSwap(old, new *T) bool { y(); return x.v.CompareAndSwap(old, new) }
