// Package zsim is the deterministic simulation runtime that the verification
// machinery in /verif copies into a scratch copy of gotid/god (as
// internal/zsim). It is never part of the shipped repository.
//
// One simulated run = one testing/synctest bubble (fake clock, quiescence
// detection) + a cooperative scheduler: every goroutine of instrumented code
// or of a harness is a Task; at most one Task runs at a time; at every
// visible operation (channel op, mutex, atomic, goroutine start, select, ...)
// the running task parks and the scheduler - drawing from a recorded choice
// tape - decides who continues.
package zsim

import (
	"bytes"
	"fmt"
	"hash/fnv"
	"os"
	"runtime"
	"sort"
	"strconv"
	"strings"
	"sync"
	"sync/atomic"
	"testing"
	"testing/synctest"
	"time"
)

const (
	stRunning = iota
	stParked  // at a yield point, can be resumed
	stWaiting // waiting on a simulated sync object
	stPending // AfterFunc callback that has not fired yet
	stDone
)

var stateNames = [...]string{"running", "parked", "waiting", "pending", "done"}

// Task is one simulated goroutine.
type Task struct {
	ID       string
	Name     string
	resume   chan struct{}
	state    int
	site     string
	nchild   int
	prio     int
	idleOnly bool // parked in Quiesce: only resumed when nothing else can run
	yielded  bool // called Gosched: de-prioritised until somebody else ran
	spins    int  // consecutive Gosched calls
	gid      uint64
	run      *Run
	harness  bool // created by the harness (r.Go), not by library code
}

// Strategy kinds.
const (
	StratWalk = iota // uniform random among enabled tasks
	StratSeq         // continue the current task with probability 1-p
	StratPCT         // random priorities with d change points
)

// Run is one simulated execution.
type Run struct {
	Seed  int64
	Ops   *Tape // workload choices
	Sched *Tape // scheduler choices
	Fault *Tape // fault choices

	mu       sync.Mutex
	gen      uint64
	tasks    []*Task
	byG      map[uint64]*Task
	announce chan struct{}
	root     *Task
	last     *Task

	log      []string
	seq      int64
	steps    int
	MaxSteps int
	Horizon  time.Duration
	start    time.Time

	strat     int
	stratP    int // per-mille switch probability for StratSeq
	pctPoints map[int]bool
	lowPrio   int

	// outcome
	Stuck     bool // horizon reached with the root task still not finished
	StepLimit bool
	violClass string
	violMsg   string
	nontriv   bool
	faults    map[string]int
	probes    map[string]int
	schedPts  int // scheduling decisions with >= 2 candidates
	adopted   int
	RandMode  int // 0 seeded, 1 min, 2 max
	// StallOdds > 0: at each scheduling point a task is stalled with probability 1/StallOdds for 1..40 StallUnit of virtual time
	StallOdds int
	StallUnit time.Duration
	// StallSites > 0: this run draws one of StallSites classes of scheduling sites (by hash of the site name: a
	// source line for channel sends, selects and go statements, the operation kind for sync and atomic operations)
	// and stalls every task that reaches a site of the class, for 1..40 StallUnit
	StallSites   int
	stallPick    int
	randCtr      int64
	bubbleMsg    string
	endTime      time.Duration
	finished     bool
	inconclusive int
	// Data is free for the harness (e.g. a history handed from Run to Post).
	Data  any
	Tier  string
	quiet bool
}

var cur atomic.Pointer[Run]
var genCtr atomic.Uint64

// Cur returns the active run or nil.
func Cur() *Run { return cur.Load() }

// Gen is the generation number of the active run (0 if none); simulated
// sync objects use it to forget state left behind by an abandoned run.
func (r *Run) Gen() uint64 { return r.gen }

func goid() uint64 {
	var buf [64]byte
	b := buf[:runtime.Stack(buf[:], false)]
	b = bytes.TrimPrefix(b, []byte("goroutine "))
	i := bytes.IndexByte(b, ' ')
	if i < 0 {
		return 0
	}
	n, _ := strconv.ParseUint(string(b[:i]), 10, 64)
	return n
}

// Current returns the active run and the calling task. During an active run
// a goroutine that is not yet a task (started by an un-instrumented
// dependency or timer) is adopted as one.
func Current() (*Run, *Task) {
	r := cur.Load()
	if r == nil {
		return nil, nil
	}
	g := goid()
	r.mu.Lock()
	t := r.byG[g]
	if t == nil {
		// A goroutine that is not a task. If it runs outside the bubble (started
		// at package initialisation, e.g. a signal listener) it must not touch
		// the run: the simulated clock starts in the year 2000, the real one
		// does not.
		if time.Now().Year() > 2015 {
			r.mu.Unlock()
			return nil, nil
		}
		r.adopted++
		t = &Task{ID: "x" + strconv.Itoa(r.adopted), Name: "adopted", resume: make(chan struct{}), state: stRunning, gid: g, run: r}
		r.tasks = append(r.tasks, t)
		r.byG[g] = t
	}
	r.mu.Unlock()
	return r, t
}

// Logf appends an event to the run's log. It never draws a random number
// and never reads a real clock.
func (r *Run) Logf(format string, a ...any) {
	if r == nil {
		return
	}
	s := fmt.Sprintf(format, a...)
	r.mu.Lock()
	r.seq++
	r.log = append(r.log, strconv.FormatInt(r.seq, 10)+" @"+r.nowLocked().String()+" "+s)
	r.mu.Unlock()
}

// Seq returns the next global event sequence number.
func (r *Run) Seq() int64 {
	r.mu.Lock()
	r.seq++
	n := r.seq
	r.mu.Unlock()
	return n
}

func (r *Run) nowLocked() time.Duration {
	if r.finished {
		return r.endTime
	}
	return time.Since(r.start)
}

// Inconclusive counts a check that could not be decided (never reported as a violation).
func (r *Run) Inconclusive() { r.inconclusive++ }

// Now is the virtual time elapsed since the run started.
func (r *Run) Now() time.Duration { return time.Since(r.start) }

func (r *Run) notify() {
	select {
	case r.announce <- struct{}{}:
	default:
	}
}

func (r *Run) park(t *Task, site string) {
	if traceAll {
		for skip := 2; skip < 6; skip++ {
			if _, file, line, ok := runtime.Caller(skip); ok && !strings.Contains(file, "internal/zsim") {
				site += "#" + file[strings.LastIndex(file, "/")+1:] + ":" + strconv.Itoa(line)
				break
			}
		}
	}
	r.mu.Lock()
	t.state = stParked
	t.site = site
	if site != "gosched" && site != "atomic" {
		t.spins = 0
	}
	r.mu.Unlock()
	r.notify()
	<-t.resume
}

// Yield is called before a visible operation.
func Yield(site string) {
	r, t := Current()
	if t == nil {
		return
	}
	if r.StallSites > 0 {
		if r.stallPick == 0 {
			r.stallPick = 1 + r.Fault.Intn(r.StallSites)
		}
		h := uint32(2166136261)
		for i := 0; i < len(site); i++ {
			h = (h ^ uint32(site[i])) * 16777619
		}
		if int(h%uint32(r.StallSites))+1 == r.stallPick {
			d := time.Duration(1+r.Fault.Intn(40)) * r.StallUnit
			r.FaultFired("site-stalled")
			r.mu.Lock()
			t.site = site + "(stalled)"
			r.mu.Unlock()
			time.Sleep(d)
		}
	}
	if r.StallOdds > 0 && r.Fault.Intn(r.StallOdds) == r.StallOdds-1 {
		// fault: the task is stalled here (pre-empted, paged out, GC pause) for a drawn virtual duration
		d := time.Duration(1+r.Fault.Intn(40)) * r.StallUnit
		r.FaultFired("task-stalled")
		r.mu.Lock()
		t.site = site + "(stalled)"
		r.mu.Unlock()
		time.Sleep(d)
	}
	r.park(t, site)
}

// Woke is called right after an operation that may have blocked.
func Woke(site string) {
	r, t := Current()
	if t == nil {
		return
	}
	r.park(t, site)
}

// Sleep is time.Sleep followed by a scheduling point.
func Sleep(d time.Duration) {
	r, t := Current()
	if t == nil {
		time.Sleep(d)
		return
	}
	r.mu.Lock()
	t.site = "sleep"
	r.mu.Unlock()
	time.Sleep(d)
	r.park(t, "slept")
}

// Gosched lowers the caller's priority until another task has run.
func Gosched() {
	r, t := Current()
	if t == nil {
		runtime.Gosched()
		return
	}
	r.mu.Lock()
	t.yielded = true
	t.spins++
	spins := t.spins
	r.mu.Unlock()
	if spins > 2 {
		// a spinning task consumes time: without this the simulated clock
		// could never advance to wake the sleeping task it is waiting for
		d := time.Millisecond
		if spins < 13 {
			d = time.Microsecond << (spins - 3)
		}
		time.Sleep(d)
	}
	r.park(t, "gosched")
}

// Spawn allocates the task of a goroutine that is about to be started by a
// rewritten `go` statement. In pass-through mode it returns nil.
func Spawn(site string) *Task {
	r, p := Current()
	if p == nil {
		return nil
	}
	return r.newTask(p, site, false)
}

func (r *Run) newTask(p *Task, site string, harness bool) *Task {
	r.mu.Lock()
	p.nchild++
	nt := &Task{ID: p.ID + "." + strconv.Itoa(p.nchild), Name: site, resume: make(chan struct{}), state: stParked, site: "start", run: r, harness: harness}
	if r.strat == StratPCT {
		nt.prio = 1 + r.Sched.Intn(1<<16)
	}
	r.tasks = append(r.tasks, nt)
	r.mu.Unlock()
	return nt
}

// Enter is the first thing the new goroutine does.
func (t *Task) Enter() {
	if t == nil {
		return
	}
	r := t.run
	g := goid()
	r.mu.Lock()
	t.gid = g
	r.byG[g] = t
	r.mu.Unlock()
	r.notify()
	<-t.resume
}

// Exit is deferred by the new goroutine.
func (t *Task) Exit() {
	if t == nil {
		return
	}
	r := t.run
	r.mu.Lock()
	t.state = stDone
	delete(r.byG, t.gid)
	r.mu.Unlock()
	r.notify()
}

// AfterFunc is time.AfterFunc whose callback runs as a task.
func AfterFunc(d time.Duration, f func()) *time.Timer {
	r, p := Current()
	if p == nil {
		return time.AfterFunc(d, f)
	}
	nt := r.newTask(p, "afterfunc", false)
	r.mu.Lock()
	nt.state = stPending
	r.mu.Unlock()
	return time.AfterFunc(d, func() {
		r.mu.Lock()
		nt.state = stParked
		r.mu.Unlock()
		nt.Enter()
		defer nt.Exit()
		f()
	})
}

// BlockLocked parks t as waiting on a simulated sync object; r.mu is held
// by the caller and released here.
func BlockLocked(r *Run, t *Task, site string) {
	t.state = stWaiting
	t.site = site
	r.mu.Unlock()
	r.notify()
	<-t.resume
}

// WakeLocked makes waiting tasks runnable again (they re-check their
// condition when resumed). r.mu is held by the caller.
func WakeLocked(ts []*Task) {
	for _, t := range ts {
		if t.state == stWaiting {
			t.state = stParked
		}
	}
}

// Lock / Unlock expose the run's internal mutex to the sync packages.
func (r *Run) Lock()   { r.mu.Lock() }
func (r *Run) Unlock() { r.mu.Unlock() }

// Go starts fn as a harness task.
func (r *Run) Go(name string, fn func()) *Task {
	_, p := Current()
	nt := r.newTask(p, name, true)
	go func() {
		nt.Enter()
		defer nt.Exit()
		defer func() {
			if p := recover(); p != nil {
				if _, ok := p.(abortRun); ok {
					return
				}
				r.Failf("harness-task-panic", "task %s (%s) panicked: %v\n%s", nt.ID, name, p, stack())
			}
		}()
		fn()
	}()
	return nt
}

func stack() string {
	buf := make([]byte, 4096)
	return string(buf[:runtime.Stack(buf, false)])
}

// Done reports whether the task has finished.
func (t *Task) Done() bool {
	r := t.run
	r.mu.Lock()
	defer r.mu.Unlock()
	return t.state == stDone
}

// Sleep advances this task's position in virtual time.
func (r *Run) Sleep(d time.Duration) { Sleep(d) }

// Quiesce parks the calling task until no other task can run at the current
// virtual instant (every other task is blocked, waiting, or done).
func (r *Run) Quiesce() {
	_, t := Current()
	r.mu.Lock()
	t.idleOnly = true
	r.mu.Unlock()
	r.park(t, "quiesce")
	r.mu.Lock()
	t.idleOnly = false
	r.mu.Unlock()
}

// WaitFor lets other tasks run (advancing virtual time as far as `limit`)
// until cond() holds; it reports whether it did.
func (r *Run) WaitFor(limit time.Duration, step time.Duration, cond func() bool) bool {
	deadline := r.Now() + limit
	for {
		r.Quiesce()
		if cond() {
			return true
		}
		if r.Now() >= deadline {
			return false
		}
		Sleep(step)
	}
}

// TaskInfo describes a live task.
type TaskInfo struct {
	ID, Name, Site, State string
	Harness               bool
}

// Alive lists tasks that are not done (the caller and pending AfterFunc
// callbacks excluded). libraryOnly skips harness-created tasks.
func (r *Run) Alive(libraryOnly bool) []TaskInfo {
	_, me := Current()
	r.mu.Lock()
	defer r.mu.Unlock()
	var out []TaskInfo
	for _, t := range r.tasks {
		if t == me || t.state == stDone || t.state == stPending {
			continue
		}
		if libraryOnly && t.harness {
			continue
		}
		out = append(out, TaskInfo{t.ID, t.Name, t.site, stateNames[t.state], t.harness})
	}
	return out
}

type abortRun struct{}

// Failf records a violation of the property (the first one wins).
func (r *Run) Failf(class, format string, a ...any) {
	msg := fmt.Sprintf(format, a...)
	r.mu.Lock()
	first := r.violClass == ""
	if first {
		r.violClass = class
		r.violMsg = msg
	}
	r.mu.Unlock()
	if first {
		r.Logf("VIOLATION %s: %s", class, firstLine(msg))
	}
}

func firstLine(s string) string {
	if i := bytes.IndexByte([]byte(s), '\n'); i >= 0 {
		return s[:i]
	}
	return s
}

// Failed reports whether a violation was recorded.
func (r *Run) Failed() bool {
	r.mu.Lock()
	defer r.mu.Unlock()
	return r.violClass != ""
}

// Probe counts that a rare condition was reached.
func (r *Run) Probe(name string) {
	r.mu.Lock()
	r.probes[name]++
	r.mu.Unlock()
}

// FaultFired counts an injected fault that actually took effect.
func (r *Run) FaultFired(kind string) {
	r.mu.Lock()
	r.faults[kind]++
	r.nontriv = true
	r.mu.Unlock()
}

// NonTrivial marks the run as non-trivial by the harness's stated rule.
func (r *Run) NonTrivial() {
	r.mu.Lock()
	r.nontriv = true
	r.mu.Unlock()
}

// Hash is the fingerprint of the event log.
func (r *Run) Hash() uint64 {
	h := fnv.New64a()
	for _, l := range r.log {
		h.Write([]byte(l))
		h.Write([]byte{'\n'})
	}
	return h.Sum64()
}

// Log returns the event log.
func (r *Run) Log() []string { return r.log }

// Steps is the number of scheduling steps taken.
func (r *Run) Steps() int { return r.steps }

func newRun(seed int64, ops, sched, fault *Tape) *Run {
	return &Run{
		Seed: seed, Ops: ops, Sched: sched, Fault: fault,
		byG:    map[uint64]*Task{},
		faults: map[string]int{}, probes: map[string]int{},
		MaxSteps: 20000, Horizon: time.Hour,
		gen: genCtr.Add(1),
	}
}

// execute runs main as task "0" under the scheduler inside a fresh bubble.
func (r *Run) execute(t *testing.T, main func(r *Run)) {
	func() {
		defer func() {
			if p := recover(); p != nil {
				r.bubbleMsg = fmt.Sprint(p)
			}
		}()
		synctest.Test(t, func(t *testing.T) {
			r.announce = make(chan struct{}, 1)
			r.start = time.Now()
			// strategy for this run
			switch r.Sched.Intn(4) {
			case 0:
				r.strat = StratSeq
				r.stratP = []int{100, 20, 300}[r.Sched.Intn(3)]
			case 1:
				r.strat = StratWalk
			case 2:
				r.strat = StratPCT
				d := 1 + r.Sched.Intn(3)
				r.pctPoints = map[int]bool{}
				for i := 0; i < d; i++ {
					r.pctPoints[r.Sched.Intn(400)] = true
				}
			case 3:
				r.strat = StratSeq
				r.stratP = 500
			}
			cur.Store(r)
			defer cur.Store(nil)
			root := &Task{ID: "0", Name: "root", resume: make(chan struct{}), state: stParked, site: "start", run: r, harness: true, prio: 1 << 15}
			r.root = root
			r.tasks = append(r.tasks, root)
			go func() {
				root.Enter()
				defer root.Exit()
				defer func() {
					if p := recover(); p != nil {
						if _, ok := p.(abortRun); ok {
							return
						}
						r.Failf("harness-root-panic", "root task panicked: %v\n%s", p, stack())
					}
				}()
				main(r)
			}()
			r.schedule()
		})
	}()
}

func (r *Run) schedule() {
	horizonTimer := time.NewTimer(r.Horizon)
	defer horizonTimer.Stop()
	defer func() { r.endTime = time.Since(r.start) }()
	var en []*Task
	for {
		synctest.Wait()
		r.mu.Lock()
		if r.root.state == stDone {
			r.mu.Unlock()
			return
		}
		en = en[:0]
		var idle []*Task
		for _, tk := range r.tasks {
			if tk.state == stParked {
				if tk.idleOnly {
					idle = append(idle, tk)
				} else {
					en = append(en, tk)
				}
			}
		}
		r.mu.Unlock()
		if len(en) == 0 {
			en = append(en, idle...)
		}
		if len(en) == 0 {
			// everything is blocked: let virtual time advance; the run is stuck
			// if nothing becomes runnable for Horizon of virtual time
			if !horizonTimer.Stop() {
				select {
				case <-horizonTimer.C:
				default:
				}
			}
			horizonTimer.Reset(r.Horizon)
			select {
			case <-r.announce:
			case <-horizonTimer.C:
				r.Stuck = true
				return
			}
			continue
		}
		if r.steps >= r.MaxSteps {
			r.StepLimit = true
			return
		}
		pick := r.pick(en)
		r.mu.Lock()
		pick.state = stRunning
		if r.last != pick {
			for _, tk := range r.tasks {
				tk.yielded = false
			}
		}
		r.last = pick
		r.mu.Unlock()
		r.steps++
		pick.resume <- struct{}{}
	}
}

var traceAll = os.Getenv("ZSIM_TRACE") != ""

func (r *Run) pick(en []*Task) *Task {
	if len(en) == 1 {
		if traceAll {
			r.mu.Lock()
			r.log = append(r.log, "  (only) "+en[0].ID+"@"+en[0].site+" t="+time.Since(r.start).String())
			r.mu.Unlock()
		}
		return en[0]
	}
	// tasks that called Gosched step back while others can run
	var cand []*Task
	for _, t := range en {
		if !t.yielded {
			cand = append(cand, t)
		}
	}
	if len(cand) == 0 {
		cand = en
	}
	if len(cand) == 1 {
		return cand[0]
	}
	sort.Slice(cand, func(i, j int) bool { return taskLess(cand[i].ID, cand[j].ID) })
	// put the current task first so that tape value 0 means "continue"
	for i, t := range cand {
		if t == r.last {
			copy(cand[1:i+1], cand[:i])
			cand[0] = t
			break
		}
	}
	r.schedPts++
	var p *Task
	switch r.strat {
	case StratWalk:
		p = cand[r.Sched.Intn(len(cand))]
	case StratSeq:
		if cand[0] == r.last {
			if r.Sched.Intn(1000) >= r.stratP {
				p = cand[0]
			} else {
				p = cand[1+r.Sched.Intn(len(cand)-1)]
			}
		} else {
			p = cand[r.Sched.Intn(len(cand))]
		}
	case StratPCT:
		if r.pctPoints[r.schedPts] && r.last != nil {
			r.lowPrio--
			r.last.prio = r.lowPrio
		}
		p = cand[0]
		for _, t := range cand[1:] {
			if t.prio > p.prio {
				p = t
			}
		}
	}
	r.mu.Lock()
	r.seq++
	r.log = append(r.log, strconv.FormatInt(r.seq, 10)+" s "+p.ID+"@"+p.site)
	r.mu.Unlock()
	return p
}

// taskLess orders task ids ("0.2.1") numerically component by component.
func taskLess(a, b string) bool {
	for {
		if a == "" || b == "" {
			return a == "" && b != ""
		}
		ai, bi := 0, 0
		for ai < len(a) && a[ai] != '.' {
			ai++
		}
		for bi < len(b) && b[bi] != '.' {
			bi++
		}
		x, y := a[:ai], b[:bi]
		if x != y {
			if len(x) != len(y) {
				return len(x) < len(y)
			}
			return x < y
		}
		if ai < len(a) {
			ai++
		}
		if bi < len(b) {
			bi++
		}
		a, b = a[ai:], b[bi:]
	}
}
