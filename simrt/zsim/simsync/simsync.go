// Package simsync is a drop-in replacement for package sync used by
// instrumented code: with an active simulated run the primitives are
// implemented on the simulator's task table (a waiting task is a durable
// block the scheduler sees); with no active run they delegate to package
// sync.
package simsync

import (
	"fmt"
	"sort"
	"sync"

	"github.com/gotid/god/internal/zsim"
)

type Locker interface {
	Lock()
	Unlock()
}

type Pool = sync.Pool

// Mutex ---------------------------------------------------------------

type Mutex struct {
	real    sync.Mutex
	gen     uint64
	held    bool
	waiters []*zsim.Task
}

func (m *Mutex) sync(r *zsim.Run) {
	if m.gen != r.Gen() {
		m.gen = r.Gen()
		m.held = false
		m.waiters = nil
	}
}

func (m *Mutex) Lock() {
	r, t := zsim.Current()
	if t == nil {
		m.real.Lock()
		return
	}
	zsim.Yield("mutex.lock")
	for {
		r.Lock()
		m.sync(r)
		if !m.held {
			m.held = true
			r.Unlock()
			return
		}
		m.waiters = append(m.waiters, t)
		zsim.BlockLocked(r, t, "mutex.wait")
	}
}

func (m *Mutex) TryLock() bool {
	r, t := zsim.Current()
	if t == nil {
		return m.real.TryLock()
	}
	zsim.Yield("mutex.trylock")
	r.Lock()
	defer r.Unlock()
	m.sync(r)
	if m.held {
		return false
	}
	m.held = true
	return true
}

func (m *Mutex) Unlock() {
	r, t := zsim.Current()
	if t == nil {
		m.real.Unlock()
		return
	}
	r.Lock()
	m.sync(r)
	if !m.held {
		r.Unlock()
		panic("sync: unlock of unlocked mutex")
	}
	m.held = false
	zsim.WakeLocked(m.waiters)
	m.waiters = nil
	r.Unlock()
}

// RWMutex -------------------------------------------------------------

type RWMutex struct {
	real    sync.RWMutex
	gen     uint64
	writer  bool
	readers int
	waiters []*zsim.Task
}

func (m *RWMutex) sync(r *zsim.Run) {
	if m.gen != r.Gen() {
		m.gen = r.Gen()
		m.writer = false
		m.readers = 0
		m.waiters = nil
	}
}

func (m *RWMutex) Lock() {
	r, t := zsim.Current()
	if t == nil {
		m.real.Lock()
		return
	}
	zsim.Yield("rw.lock")
	for {
		r.Lock()
		m.sync(r)
		if !m.writer && m.readers == 0 {
			m.writer = true
			r.Unlock()
			return
		}
		m.waiters = append(m.waiters, t)
		zsim.BlockLocked(r, t, "rw.wait")
	}
}

func (m *RWMutex) Unlock() {
	r, t := zsim.Current()
	if t == nil {
		m.real.Unlock()
		return
	}
	r.Lock()
	m.sync(r)
	if !m.writer {
		r.Unlock()
		panic("sync: Unlock of unlocked RWMutex")
	}
	m.writer = false
	zsim.WakeLocked(m.waiters)
	m.waiters = nil
	r.Unlock()
}

func (m *RWMutex) RLock() {
	r, t := zsim.Current()
	if t == nil {
		m.real.RLock()
		return
	}
	zsim.Yield("rw.rlock")
	for {
		r.Lock()
		m.sync(r)
		if !m.writer {
			m.readers++
			r.Unlock()
			return
		}
		m.waiters = append(m.waiters, t)
		zsim.BlockLocked(r, t, "rw.rwait")
	}
}

func (m *RWMutex) RUnlock() {
	r, t := zsim.Current()
	if t == nil {
		m.real.RUnlock()
		return
	}
	r.Lock()
	m.sync(r)
	if m.readers <= 0 {
		r.Unlock()
		panic("sync: RUnlock of unlocked RWMutex")
	}
	m.readers--
	if m.readers == 0 {
		zsim.WakeLocked(m.waiters)
		m.waiters = nil
	}
	r.Unlock()
}

func (m *RWMutex) RLocker() Locker { return (*rlocker)(m) }

type rlocker RWMutex

func (r *rlocker) Lock()   { (*RWMutex)(r).RLock() }
func (r *rlocker) Unlock() { (*RWMutex)(r).RUnlock() }

// WaitGroup -----------------------------------------------------------

type WaitGroup struct {
	real    sync.WaitGroup
	gen     uint64
	n       int
	waiters []*zsim.Task
}

func (w *WaitGroup) sync(r *zsim.Run) {
	if w.gen != r.Gen() {
		w.gen = r.Gen()
		w.n = 0
		w.waiters = nil
	}
}

func (w *WaitGroup) Add(d int) {
	r, t := zsim.Current()
	if t == nil {
		w.real.Add(d)
		return
	}
	if d < 0 {
		zsim.Yield("wg.done")
	}
	r.Lock()
	w.sync(r)
	w.n += d
	if w.n < 0 {
		r.Unlock()
		panic("sync: negative WaitGroup counter")
	}
	if w.n == 0 {
		zsim.WakeLocked(w.waiters)
		w.waiters = nil
	}
	r.Unlock()
}

func (w *WaitGroup) Done() { w.Add(-1) }

func (w *WaitGroup) Wait() {
	r, t := zsim.Current()
	if t == nil {
		w.real.Wait()
		return
	}
	zsim.Yield("wg.wait")
	woken := false
	for {
		r.Lock()
		w.sync(r)
		if w.n == 0 {
			r.Unlock()
			return
		}
		if woken {
			// like sync.WaitGroup: the counter went to zero and released this waiter, and was raised again before
			// the waiter got to run
			r.Unlock()
			panic("sync: WaitGroup is reused before previous Wait has returned")
		}
		w.waiters = append(w.waiters, t)
		zsim.BlockLocked(r, t, "wg.waiting")
		woken = true
	}
}

// Once ----------------------------------------------------------------

type Once struct {
	real    sync.Once
	gen     uint64
	state   int
	waiters []*zsim.Task
}

func (o *Once) Do(f func()) {
	r, t := zsim.Current()
	if t == nil {
		o.real.Do(func() {
			defer func() { o.state = 2 }()
			f()
		})
		return
	}
	zsim.Yield("once.do")
	for {
		r.Lock()
		if o.gen != r.Gen() {
			// a Once that completed in an earlier run (package-level
			// initialisation) stays done; one abandoned half-way is reset
			o.gen = r.Gen()
			if o.state == 1 {
				o.state = 0
			}
			o.waiters = nil
		}
		switch o.state {
		case 2:
			r.Unlock()
			return
		case 1:
			o.waiters = append(o.waiters, t)
			zsim.BlockLocked(r, t, "once.waiting")
			continue
		}
		o.state = 1
		r.Unlock()
		o.real.Do(func() {}) // keep pass-through mode consistent
		defer func() {
			r.Lock()
			o.state = 2
			zsim.WakeLocked(o.waiters)
			o.waiters = nil
			r.Unlock()
		}()
		f()
		return
	}
}

// Cond ----------------------------------------------------------------

type Cond struct {
	L       Locker
	real    *sync.Cond
	gen     uint64
	waiters []*condWaiter
}

type condWaiter struct {
	t        *zsim.Task
	signaled bool
}

func NewCond(l Locker) *Cond { return &Cond{L: l, real: sync.NewCond(l)} }

func (c *Cond) Wait() {
	r, t := zsim.Current()
	if t == nil {
		c.real.Wait()
		return
	}
	r.Lock()
	if c.gen != r.Gen() {
		c.gen = r.Gen()
		c.waiters = nil
	}
	w := &condWaiter{t: t}
	c.waiters = append(c.waiters, w)
	r.Unlock()
	c.L.Unlock()
	for {
		r.Lock()
		if w.signaled {
			r.Unlock()
			break
		}
		zsim.BlockLocked(r, t, "cond.wait")
	}
	c.L.Lock()
}

func (c *Cond) Signal() {
	r, t := zsim.Current()
	if t == nil {
		c.real.Signal()
		return
	}
	zsim.Yield("cond.signal")
	r.Lock()
	if c.gen == r.Gen() && len(c.waiters) > 0 {
		w := c.waiters[0]
		c.waiters = c.waiters[1:]
		w.signaled = true
		zsim.WakeLocked([]*zsim.Task{w.t})
	}
	r.Unlock()
}

func (c *Cond) Broadcast() {
	r, t := zsim.Current()
	if t == nil {
		c.real.Broadcast()
		return
	}
	zsim.Yield("cond.broadcast")
	r.Lock()
	if c.gen == r.Gen() {
		for _, w := range c.waiters {
			w.signaled = true
			zsim.WakeLocked([]*zsim.Task{w.t})
		}
		c.waiters = nil
	}
	r.Unlock()
}

// Map -----------------------------------------------------------------

// Map wraps sync.Map; operations are scheduling points and Range iterates
// in a deterministic (sorted by printed key) order during a run.
type Map struct{ m sync.Map }

func (m *Map) Load(key any) (any, bool)        { zsim.Yield("map.load"); return m.m.Load(key) }
func (m *Map) Store(key, value any)            { zsim.Yield("map.store"); m.m.Store(key, value) }
func (m *Map) Delete(key any)                  { zsim.Yield("map.delete"); m.m.Delete(key) }
func (m *Map) Swap(key, value any) (any, bool) { zsim.Yield("map.swap"); return m.m.Swap(key, value) }
func (m *Map) LoadOrStore(key, value any) (any, bool) {
	zsim.Yield("map.loadorstore")
	return m.m.LoadOrStore(key, value)
}
func (m *Map) LoadAndDelete(key any) (any, bool) {
	zsim.Yield("map.loadanddelete")
	return m.m.LoadAndDelete(key)
}
func (m *Map) CompareAndSwap(key, old, new any) bool {
	zsim.Yield("map.cas")
	return m.m.CompareAndSwap(key, old, new)
}
func (m *Map) CompareAndDelete(key, old any) bool {
	zsim.Yield("map.cad")
	return m.m.CompareAndDelete(key, old)
}
func (m *Map) Range(f func(key, value any) bool) {
	if zsim.Cur() == nil {
		m.m.Range(f)
		return
	}
	zsim.Yield("map.range")
	type kv struct {
		k, v any
		s    string
	}
	var all []kv
	m.m.Range(func(k, v any) bool { all = append(all, kv{k, v, fmt.Sprintf("%T:%v", k, k)}); return true })
	sort.Slice(all, func(i, j int) bool { return all[i].s < all[j].s })
	for _, e := range all {
		if !f(e.k, e.v) {
			return
		}
	}
}
