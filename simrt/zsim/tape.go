package zsim

import "math/rand"

// Tape is a choice sequence: in search mode a PRNG that records what it
// drew, in replay mode a recorded list (0 when exhausted). Value 0 is by
// convention the "simplest" choice (no fault, continue the current task,
// first alternative), so that zeroing/truncating a tape simplifies a run.
type Tape struct {
	rng  *rand.Rand
	play []int
	rec  []int
	pos  int
	rep  bool
}

// NewTape returns a recording tape seeded with seed.
func NewTape(seed int64) *Tape { return &Tape{rng: rand.New(rand.NewSource(seed))} }

// ReplayTape returns a tape that plays vals.
func ReplayTape(vals []int) *Tape { return &Tape{play: vals, rep: true} }

// Intn returns a choice in [0,n).
func (t *Tape) Intn(n int) int {
	if n <= 1 {
		return 0
	}
	var v int
	if t.rep {
		if t.pos < len(t.play) {
			v = t.play[t.pos] % n
			if v < 0 {
				v = 0
			}
		}
	} else {
		v = t.rng.Intn(n)
	}
	t.pos++
	t.rec = append(t.rec, v)
	return v
}

// Bool is true with probability num/den.
func (t *Tape) Chance(num, den int) bool {
	// value 0 must mean "no": map the top `num` values to true
	return t.Intn(den) >= den-num
}

// Pick returns one of the given values.
func Pick[T any](t *Tape, vals ...T) T { return vals[t.Intn(len(vals))] }

// Recorded returns the choices made so far.
func (t *Tape) Recorded() []int { return append([]int(nil), t.rec...) }

// Len is the number of choices made so far.
func (t *Tape) Len() int { return t.pos }
