package zsim

import (
	"encoding/json"
	"fmt"
	"math/rand"
	"os"
	"os/exec"
	"path/filepath"
	"runtime"
	"sort"
	"strconv"
	"strings"
	"testing"
	"time"
)

// Harness describes one simulation harness (one test binary may hold one).
type Harness struct {
	Property string
	Name     string
	Run      func(r *Run)
	MaxSteps int
	Horizon  time.Duration
	// Rule says what makes a run non-trivial for the evidence file.
	Rule string
	Real []string
	Stub []string
	// SpinIsViolation: reaching MaxSteps is reported as a livelock instead of being counted inconclusive (for
	// harnesses whose runs need only a small fraction of MaxSteps).
	SpinIsViolation bool
	// Setup runs before every simulated run, outside the bubble.
	Setup func()
	// Post runs after the bubble has ended (outside it), e.g. to check a
	// recorded history with a linearizability checker; it may call r.Failf.
	Post func(r *Run)
}

// Viol is a violation found by a worker.
type Viol struct {
	Seed   int64  `json:"seed"`
	Class  string `json:"class"`
	Msg    string `json:"msg"`
	Replay string `json:"replay"`
	Count  int    `json:"count"`
	MinRun int    `json:"minimise_runs"`
}

// Sample is one written-out run.
type Sample struct {
	Seed     int64    `json:"seed"`
	Strategy string   `json:"strategy"`
	Steps    int      `json:"steps"`
	SimTime  string   `json:"sim_time"`
	Log      []string `json:"log"`
}

// WorkerResult is what one worker process reports.
type WorkerResult struct {
	Property     string         `json:"property"`
	Harness      string         `json:"harness"`
	SeedFrom     int64          `json:"seed_from"`
	Runs         int64          `json:"runs"`
	Nontrivial   int64          `json:"nontrivial"`
	Hashes       []string       `json:"hashes"`
	Faults       map[string]int `json:"faults"`
	Probes       map[string]int `json:"probes"`
	Strategies   map[string]int `json:"strategies"`
	SimTimeNs    int64          `json:"sim_time_ns"`
	Steps        int64          `json:"steps"`
	SchedPoints  int64          `json:"sched_points"`
	StepLimit    int            `json:"step_limit"`
	Inconclusive int            `json:"inconclusive"`
	Adopted      int            `json:"adopted"`
	Violations   []Viol         `json:"violations"`
	Samples      []Sample       `json:"samples"`
	Nondet       []int64        `json:"nondet_seeds"`
	WallS        float64        `json:"wall_s"`
	Rule         string         `json:"rule"`
	Real         []string       `json:"real"`
	Stub         []string       `json:"stub"`
	Done         bool           `json:"done"`
}

// Replay is the on-disk form of a reproducible run.
type Replay struct {
	Property string   `json:"property"`
	Harness  string   `json:"harness"`
	Seed     int64    `json:"seed"`
	Tier     string   `json:"tier"`
	Ops      []int    `json:"ops"`
	Sched    []int    `json:"sched"`
	Fault    []int    `json:"fault"`
	Class    string   `json:"class"`
	Msg      string   `json:"msg"`
	Hash     string   `json:"hash"`
	OrigLens [3]int   `json:"orig_tape_lens"`
	Log      []string `json:"log"`
}

func mix(seed int64, k uint64) int64 {
	z := uint64(seed)*0x9E3779B97F4A7C15 + k*0xBF58476D1CE4E5B9
	z ^= z >> 30
	z *= 0xBF58476D1CE4E5B9
	z ^= z >> 27
	z *= 0x94D049BB133111EB
	z ^= z >> 31
	return int64(z >> 1)
}

var stratNames = [...]string{"walk", "seq", "pct"}

func (h *Harness) runOnce(t *testing.T, seed int64, tier string, tapes *[3][]int) *Run {
	var r *Run
	if tapes == nil {
		r = newRun(seed, NewTape(mix(seed, 1)), NewTape(mix(seed, 2)), NewTape(mix(seed, 3)))
	} else {
		r = newRun(seed, ReplayTape(tapes[0]), ReplayTape(tapes[1]), ReplayTape(tapes[2]))
	}
	r.Tier = tier
	if h.MaxSteps > 0 {
		r.MaxSteps = h.MaxSteps
	}
	if h.Horizon > 0 {
		r.Horizon = h.Horizon
	}
	if h.Setup != nil {
		h.Setup()
	}
	// dependencies that draw from math/rand's global source (go-redis retry
	// back-off jitter) must not depend on what earlier runs consumed
	rand.Seed(seed)
	r.execute(t, h.Run)
	r.finished = true
	if h.Post != nil && r.violClass == "" && !r.Stuck && !r.StepLimit {
		h.Post(r)
	}
	if r.StepLimit && r.violClass == "" && h.SpinIsViolation {
		var sb strings.Builder
		for _, ti := range r.aliveAll() {
			fmt.Fprintf(&sb, " %s(%s)@%s/%s", ti.ID, ti.Name, ti.Site, ti.State)
		}
		r.violClass = "livelock"
		r.violMsg = fmt.Sprintf("the run took more than %d scheduling steps without finishing (the harness needs a small fraction of that): a task is spinning; tasks:%s", r.MaxSteps, sb.String())
		r.log = append(r.log, "VIOLATION livelock:"+sb.String())
		r.StepLimit = false
	}
	if r.Stuck && r.violClass == "" {
		var sb strings.Builder
		for _, ti := range r.aliveAll() {
			fmt.Fprintf(&sb, " %s(%s)@%s/%s", ti.ID, ti.Name, ti.Site, ti.State)
		}
		r.violClass = "stuck"
		r.violMsg = "the run made no progress for " + r.Horizon.String() + " of virtual time with the workload unfinished; tasks:" + sb.String()
		r.log = append(r.log, "VIOLATION stuck:"+sb.String())
	}
	return r
}

func (r *Run) aliveAll() []TaskInfo {
	r.mu.Lock()
	defer r.mu.Unlock()
	var out []TaskInfo
	for _, t := range r.tasks {
		if t.state == stDone || t.state == stPending {
			continue
		}
		out = append(out, TaskInfo{t.ID, t.Name, t.site, stateNames[t.state], t.harness})
	}
	return out
}

func tapesOf(r *Run) [3][]int {
	return [3][]int{r.Ops.Recorded(), r.Sched.Recorded(), r.Fault.Recorded()}
}

var minimiseWall = 30 * time.Second

// minimise shrinks the tapes of a failing run while the same violation
// class persists.
func (h *Harness) minimise(t *testing.T, seed int64, tier string, class string, best [3][]int, budget int) ([3][]int, int) {
	runs := 0
	// shrinking is best effort and bounded in wall-clock time too: a violation whose runs each take seconds
	// (a livelock that burns the whole step limit) must not keep the worker past its watchdog; whatever
	// tapes are reached by then are still a reproducing replay
	until := time.Now().Add(minimiseWall)
	try := func(c [3][]int) (bool, [3][]int) {
		if runs >= budget || (runs > 0 && time.Now().After(until)) {
			budget = runs
			return false, c
		}
		runs++
		dropPools()
		r := h.runOnce(t, seed, tier, &c)
		if r.violClass == class {
			return true, tapesOf(r)
		}
		return false, c
	}
	trimZeros := func(v []int) []int {
		for len(v) > 0 && v[len(v)-1] == 0 {
			v = v[:len(v)-1]
		}
		return v
	}
	for k := range best {
		best[k] = trimZeros(best[k])
	}
	order := []int{2, 1, 0} // fault, sched, ops
	for pass := 0; pass < 2; pass++ {
		for _, k := range order {
			// 1. empty tape
			if len(best[k]) > 0 {
				c := best
				c[k] = nil
				if ok, n := try(c); ok {
					best = n
					for j := range best {
						best[j] = trimZeros(best[j])
					}
					continue
				}
			}
			// 2. truncate (suffix -> zeros)
			lo, hi := 0, len(best[k])
			for lo < hi && runs < budget {
				mid := (lo + hi) / 2
				c := best
				c[k] = append([]int(nil), best[k][:mid]...)
				if ok, _ := try(c); ok {
					hi = mid
				} else {
					lo = mid + 1
				}
			}
			if hi < len(best[k]) {
				c := best
				c[k] = append([]int(nil), best[k][:hi]...)
				if ok, n := try(c); ok {
					best = n
					for j := range best {
						best[j] = trimZeros(best[j])
					}
				}
			}
			// 3. delete chunks
			for size := len(best[k]) / 2; size >= 1 && runs < budget; size /= 2 {
				for i := 0; i+size <= len(best[k]) && runs < budget; {
					c := best
					c[k] = append(append([]int(nil), best[k][:i]...), best[k][i+size:]...)
					if ok, n := try(c); ok {
						best = n
						for j := range best {
							best[j] = trimZeros(best[j])
						}
					} else {
						i += size
					}
				}
			}
			// 4. zero single values, else make them smaller
			for i := 0; i < len(best[k]) && runs < budget; i++ {
				for _, nv := range []int{0, best[k][i] / 2, best[k][i] - 1} {
					if i >= len(best[k]) || nv >= best[k][i] || nv < 0 {
						continue
					}
					c := best
					c[k] = append([]int(nil), best[k]...)
					c[k][i] = nv
					if ok, n := try(c); ok {
						best = n
						for j := range best {
							best[j] = trimZeros(best[j])
						}
						break
					}
				}
			}
		}
	}
	return best, runs
}

// dropPools empties every sync.Pool (two collections: primary and victim cache), so that a re-execution does
// not depend on objects that earlier runs of this process left in package-level pools of the code under test.
func dropPools() {
	runtime.GC()
	runtime.GC()
}

// freshReplay runs a replay file in a fresh process of this test binary - package-level state of the code under
// test (caches, registries) is then what a process start leaves - and reports the class and event-log hash it got.
func freshReplay(path string) (class, hash string) {
	exe, err := os.Executable()
	if err != nil {
		return "?", ""
	}
	cmd := exec.Command(exe, os.Args[1:]...)
	cmd.Env = append(os.Environ(), "ZSIM_MODE=replay", "ZSIM_REPLAY="+path, "ZSIM_VERBOSE=")
	out, _ := cmd.CombinedOutput()
	for _, ln := range strings.Split(string(out), "\n") {
		if strings.HasPrefix(ln, "REPLAY-RESULT ") {
			var ec, eh string
			fmt.Sscanf(ln, "REPLAY-RESULT class=%q hash=%s expected_class=%q expected_hash=%s", &class, &hash, &ec, &eh)
			return class, hash
		}
	}
	return "?", ""
}

func writeReplay(path string, rp Replay) {
	b, _ := json.MarshalIndent(rp, "", " ")
	os.WriteFile(path, b, 0o644)
}

// freshMinimise shrinks tapes with one process per execution (empty tape, then shortest failing prefix, per tape).
func freshMinimise(path string, rp Replay, budget int) Replay {
	tmp := path + ".cand"
	defer os.Remove(tmp)
	try := func(c Replay) bool {
		if budget <= 0 {
			return false
		}
		budget--
		writeReplay(tmp, c)
		cl, _ := freshReplay(tmp)
		return cl == rp.Class
	}
	get := func(r *Replay, k int) *[]int { return []*[]int{&r.Fault, &r.Sched, &r.Ops}[k] }
	for k := 0; k < 3; k++ {
		cur := *get(&rp, k)
		c := rp
		*get(&c, k) = nil
		if try(c) {
			rp = c
			continue
		}
		lo, hi := 0, len(cur) // shortest prefix known to fail is hi
		for lo+1 < hi && budget > 0 {
			mid := (lo + hi) / 2
			c := rp
			*get(&c, k) = append([]int(nil), cur[:mid]...)
			if try(c) {
				hi = mid
			} else {
				lo = mid
			}
		}
		*get(&rp, k) = append([]int(nil), cur[:hi]...)
	}
	return rp
}

func envInt(name string, def int64) int64 {
	if s := os.Getenv(name); s != "" {
		if n, err := strconv.ParseInt(s, 10, 64); err == nil {
			return n
		}
	}
	return def
}

// Main is called by the harness's test function. It is driven by
// environment variables set by simctl:
//
//	ZSIM_MODE    search (default) | replay | selftest
//	ZSIM_FROM    first seed        ZSIM_N   number of seeds
//	ZSIM_WALL    wall-clock budget in seconds (search stops starting runs)
//	ZSIM_OUT     result file       ZSIM_REPLAY_DIR  where replay files go
//	ZSIM_REPLAY  replay file (mode replay)
//	ZSIM_TIER    quick | thorough
func Main(t *testing.T, h Harness) {
	mode := os.Getenv("ZSIM_MODE")
	tier := os.Getenv("ZSIM_TIER")
	if tier == "" {
		tier = "quick"
	}
	switch mode {
	case "replay":
		h.replay(t, os.Getenv("ZSIM_REPLAY"))
		return
	}
	from := envInt("ZSIM_FROM", 1)
	n := envInt("ZSIM_N", 200)
	wall := time.Duration(envInt("ZSIM_WALL", 3600)) * time.Second
	out := os.Getenv("ZSIM_OUT")
	rdir := os.Getenv("ZSIM_REPLAY_DIR")
	if rdir == "" {
		rdir = os.TempDir()
	}
	res := &WorkerResult{Property: h.Property, Harness: h.Name, SeedFrom: from,
		Faults: map[string]int{}, Probes: map[string]int{}, Strategies: map[string]int{},
		Rule: h.Rule, Real: h.Real, Stub: h.Stub}
	hashes := map[uint64]struct{}{}
	classes := map[string]*Viol{}
	staleTries := map[string]int{}
	t0 := time.Now()
	flush := func(done bool) {
		res.Done = done
		res.WallS = time.Since(t0).Seconds()
		res.Hashes = res.Hashes[:0]
		for hsh := range hashes {
			res.Hashes = append(res.Hashes, strconv.FormatUint(hsh, 16))
		}
		sort.Strings(res.Hashes)
		res.Violations = res.Violations[:0]
		for _, v := range classes {
			res.Violations = append(res.Violations, *v)
		}
		sort.Slice(res.Violations, func(i, j int) bool { return res.Violations[i].Class < res.Violations[j].Class })
		if out != "" {
			b, _ := json.Marshal(res)
			os.WriteFile(out+".tmp", b, 0o644)
			os.Rename(out+".tmp", out)
		}
	}
	for s := from; s < from+n; s++ {
		if time.Since(t0) > wall {
			break
		}
		if out != "" {
			os.WriteFile(out+".seed", []byte(strconv.FormatInt(s, 10)), 0o644)
		}
		r := h.runOnce(t, s, tier, nil)
		res.Runs++
		if d := os.Getenv("ZSIM_DUMP"); d != "" {
			os.WriteFile(filepath.Join(d, fmt.Sprintf("%d.log", s)), []byte(strings.Join(r.log, "\n")+"\n"), 0o644)
		}
		res.Steps += int64(r.steps)
		res.SchedPoints += int64(r.schedPts)
		res.SimTimeNs += int64(r.simEnd())
		res.Adopted += r.adopted
		res.Strategies[stratNames[r.strat]]++
		for k, v := range r.faults {
			res.Faults[k] += v
		}
		for k, v := range r.probes {
			res.Probes[k] += v
		}
		if r.StepLimit {
			res.StepLimit++
			res.Inconclusive++
		}
		res.Inconclusive += r.inconclusive
		if mode == "selftest" {
			r2 := h.runOnce(t, s, tier, nil)
			tp := tapesOf(r)
			r3 := h.runOnce(t, s, tier, &tp)
			if r2.Hash() != r.Hash() || r3.Hash() != r.Hash() || r3.violClass != r.violClass {
				res.Nondet = append(res.Nondet, s)
				if len(res.Nondet) <= 2 {
					fmt.Printf("NONDET seed=%d\n--- first\n%s\n--- second\n%s\n--- replay\n%s\n", s, strings.Join(r.log, "\n"), strings.Join(r2.log, "\n"), strings.Join(r3.log, "\n"))
				}
			}
		}
		if r.nontriv {
			res.Nontrivial++
			hashes[r.Hash()] = struct{}{}
			if len(res.Samples) < 3 && r.violClass == "" {
				res.Samples = append(res.Samples, sampleOf(r, s))
			}
		}
		if r.violClass != "" && mode != "selftest" {
			// does it depend on state that earlier runs left behind in the process (e.g. a package-level sync.Pool)?
			dropPools()
			tp := tapesOf(r)
			if again := h.runOnce(t, s, tier, &tp); again.violClass != r.violClass {
				res.Probes["violation_depended_on_earlier_runs"]++
				r.violClass = ""
			}
		}
		if r.violClass != "" {
			if v := classes[r.violClass]; v != nil {
				v.Count++
			} else if len(classes) < 6 && staleTries[r.violClass] < 5 {
				v := &Viol{Seed: s, Class: r.violClass, Msg: r.violMsg, Count: 1}
				classes[r.violClass] = v
				best := tapesOf(r)
				orig := [3]int{len(best[0]), len(best[1]), len(best[2])}
				if mode != "selftest" {
					best, v.MinRun = h.minimise(t, s, tier, r.violClass, best, 300)
				}
				dropPools()
				fr := h.runOnce(t, s, tier, &best)
				if fr.violClass != r.violClass {
					// should not happen: minimise only accepts reproducing tapes
					best = tapesOf(r)
					fr = h.runOnce(t, s, tier, &best)
				}
				rp := Replay{Property: h.Property, Harness: h.Name, Seed: s, Tier: tier,
					Ops: best[0], Sched: best[1], Fault: best[2], Class: fr.violClass, Msg: fr.violMsg,
					Hash: strconv.FormatUint(fr.Hash(), 16), OrigLens: orig, Log: fr.log}
				name := fmt.Sprintf("%s-%s-%d.json", h.Property, sanitize(h.Name+"-"+r.violClass), s)
				path := filepath.Join(rdir, name)
				writeReplay(path, rp)
				v.Replay = path
				v.Msg = fr.violMsg
				if mode != "selftest" && r.violClass != "process-crash" {
					// must hold from a clean process: package-level state of the code under test that earlier
					// runs of this worker left behind (a cache, a registry) is not part of the replay file
					if cl, hs := freshReplay(path); cl != rp.Class || hs != rp.Hash {
						full := tapesOf(r)
						rp2 := rp
						rp2.Ops, rp2.Sched, rp2.Fault, rp2.Log = full[0], full[1], full[2], r.log
						writeReplay(path, rp2)
						cl1, hs1 := freshReplay(path)
						cl2, hs2 := freshReplay(path)
						if cl1 != rp.Class || cl2 != rp.Class || hs1 != hs2 {
							// this run only failed because of what earlier runs had left in the process
							res.Probes["violation_needed_state_of_earlier_runs"]++
							os.Remove(path)
							delete(classes, r.violClass)
							staleTries[r.violClass]++
						} else {
							rp2 = freshMinimise(path, rp2, 40)
							rp2.Hash = ""
							writeReplay(path, rp2)
							_, hs := freshReplay(path)
							rp2.Hash = hs
							rp2.Log = append([]string{"(minimised with one process per execution: the violation depends on package-level state of the code under test; the log below is that of the unminimised run)"}, r.log...)
							writeReplay(path, rp2)
							res.Probes["violation_minimised_in_fresh_processes"]++
						}
					}
				}
			}
		}
		if res.Runs%200 == 0 {
			flush(false)
		}
	}
	flush(true)
}

func sanitize(s string) string {
	b := []byte(s)
	for i, c := range b {
		if !(c >= 'a' && c <= 'z' || c >= 'A' && c <= 'Z' || c >= '0' && c <= '9' || c == '-' || c == '_' || c == '.') {
			b[i] = '_'
		}
	}
	if len(b) > 80 {
		b = b[:80]
	}
	return string(b)
}

func (r *Run) simEnd() time.Duration {
	// the last log line carries the latest virtual time we know cheaply
	return r.endTime
}

func sampleOf(r *Run, seed int64) Sample {
	lg := r.log
	if len(lg) > 60 {
		lg = append(append([]string(nil), lg[:40]...), append([]string{"..."}, lg[len(lg)-19:]...)...)
	}
	return Sample{Seed: seed, Strategy: stratNames[r.strat], Steps: r.steps, SimTime: r.endTime.String(), Log: lg}
}

func (h *Harness) replay(t *testing.T, path string) {
	b, err := os.ReadFile(path)
	if err != nil {
		fmt.Printf("REPLAY-ERROR cannot read %s: %v\n", path, err)
		os.Exit(2)
	}
	var rp Replay
	if err := json.Unmarshal(b, &rp); err != nil {
		fmt.Printf("REPLAY-ERROR bad replay file: %v\n", err)
		os.Exit(2)
	}
	tp := [3][]int{rp.Ops, rp.Sched, rp.Fault}
	var r *Run
	if rp.Class == "process-crash" {
		// the run killed its process (a panic in a goroutine of the library): re-execute the seed itself
		fmt.Printf("REPLAY-CRASH-SEED %d\n", rp.Seed)
		r = h.runOnce(t, rp.Seed, rp.Tier, nil)
	} else {
		r = h.runOnce(t, rp.Seed, rp.Tier, &tp)
	}
	hash := strconv.FormatUint(r.Hash(), 16)
	if os.Getenv("ZSIM_VERBOSE") != "" {
		fmt.Println(strings.Join(r.log, "\n"))
	}
	fmt.Printf("REPLAY-RESULT class=%q hash=%s expected_class=%q expected_hash=%s\n", r.violClass, hash, rp.Class, rp.Hash)
	if r.violClass != "" {
		fmt.Printf("REPLAY-MSG %s\n", r.violMsg)
	}
	if r.violClass == rp.Class && hash == rp.Hash {
		fmt.Println("REPLAY-REPRODUCED")
	} else if r.violClass == rp.Class {
		fmt.Println("REPLAY-SAMECLASS-DIFFERENT-HASH")
	} else {
		fmt.Println("REPLAY-NOT-REPRODUCED")
	}
}
