module github.com/gotid/god/internal

go 1.19
// placeholder: keeps this tree out of the verif module; the files are copied into scratch copies of gotid/god as internal/zsim
